"""Auto-dictionary: string and bytes literals harvested (with ast, not by importing) from
the sources of the tree under test.  Like a fuzzer's dictionary, they are fed back as table
keys, string values and property values, so that behaviour keyed on a magic name or value
that appears in the code is reached without knowing it in advance.  Deterministic for a
given tree (sorted)."""
import ast
import os

from pbt.runner import REPO

_CACHE = {}


def literals(max_len=48):
    key = (REPO, max_len)
    if key in _CACHE:
        return _CACHE[key]
    strs, byts = set(), set()
    root = os.path.join(REPO, 'pamqp')
    for fn in sorted(os.listdir(root)):
        if not fn.endswith('.py'):
            continue
        try:
            tree = ast.parse(open(os.path.join(root, fn), encoding='utf-8').read())
        except (SyntaxError, OSError):
            continue
        doc_ids = set()
        for node in ast.walk(tree):
            if isinstance(node, (ast.Module, ast.ClassDef, ast.FunctionDef,
                                 ast.AsyncFunctionDef)):
                body = getattr(node, 'body', [])
                if body and isinstance(body[0], ast.Expr) and \
                        isinstance(body[0].value, ast.Constant):
                    doc_ids.add(id(body[0].value))
        for node in ast.walk(tree):
            if isinstance(node, ast.Constant) and id(node) not in doc_ids:
                v = node.value
                if isinstance(v, str) and 0 < len(v) <= max_len and '\n' not in v:
                    strs.add(v)
                elif isinstance(v, bytes) and 0 < len(v) <= max_len:
                    byts.add(v)
    out = (sorted(strs), sorted(byts))
    _CACHE[key] = out
    return out


def key_like():
    """harvested strings usable as short strings / table keys (<= 255 UTF-8 bytes)"""
    return [s for s in literals()[0] if len(s.encode('utf-8', 'surrogatepass')) <= 255]
