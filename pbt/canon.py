"""Tagged-JSON serialisation of generated cases and type-aware canonical forms.

Nothing here imports pamqp.  Two services:

* ``to_json`` / ``from_json``: lossless, replayable encoding of every Python value
  the generators produce (NaN, Decimal, bytes, datetime with offset, struct_time,
  dict insertion order, non-str keys, tuples ...).
* ``canon``: a hashable, type-aware canonical form used by the round-trip oracles:
  two values are "equal in value and Python type" iff their canon forms are equal.
"""
import datetime
import decimal
import hashlib
import json
import math
import time

EPOCH_ORD = datetime.date(1970, 1, 1).toordinal()


class NullTZ(datetime.tzinfo):
    """a tzinfo whose utcoffset() is None: Python defines such a datetime as *naive*"""

    def utcoffset(self, dt):
        return None

    def tzname(self, dt):
        return None

    def dst(self, dt):
        return None

    def __repr__(self):
        return 'NullTZ()'


NULLTZ = NullTZ()

_HOUR = datetime.timedelta(hours=1)
_ZERO = datetime.timedelta(0)


def _first_sunday_on_or_after(dt):
    days = 6 - dt.weekday()
    return dt + datetime.timedelta(days)


class RuleTZ(datetime.tzinfo):
    """A PEP 495 aware tzinfo with US-style DST rules (second Sunday of March 02:00 to
    first Sunday of November 02:00, standard offset -5 h).  One shared instance: two
    datetimes with the same wall time but different `fold` compare equal although they
    denote instants one hour apart."""

    std = datetime.timedelta(hours=-5)

    def _range(self, year):
        start = _first_sunday_on_or_after(datetime.datetime(year, 3, 8, 2))
        end = _first_sunday_on_or_after(datetime.datetime(year, 11, 1, 2))
        return start, end

    def utcoffset(self, dt):
        return self.std + self.dst(dt)

    def dst(self, dt):
        start, end = self._range(dt.year)
        naive = dt.replace(tzinfo=None)
        if start + _HOUR <= naive < end - _HOUR:
            return _HOUR
        if end - _HOUR <= naive < end:          # repeated hour
            return _ZERO if dt.fold else _HOUR
        if start <= naive < start + _HOUR:      # skipped hour
            return _HOUR if dt.fold else _ZERO
        return _ZERO

    def tzname(self, dt):
        return 'RDT' if self.dst(dt) else 'RST'

    def fromutc(self, dt):
        start, end = self._range(dt.year)
        start = start.replace(tzinfo=self)
        end = end.replace(tzinfo=self)
        std_time = dt + self.std
        dst_time = std_time + _HOUR
        if end <= dst_time < end + _HOUR:
            return std_time.replace(fold=1)
        if std_time < start or dst_time >= end:
            return std_time
        if start <= std_time < end - _HOUR:
            return dst_time
        return std_time

    def __repr__(self):
        return 'RuleTZ()'

    def __deepcopy__(self, memo):      # a singleton: copies keep the same tzinfo object
        return self

    def __copy__(self):
        return self

    def __reduce__(self):
        return (_ruletz, ())


def _ruletz():
    return RULETZ


RULETZ = RuleTZ()


class IntSub(int):
    """a proper subclass of int (what enum.IntEnum / IntFlag members are)"""

    def __repr__(self):
        return 'IntSub(%d)' % int(self)


class CIStr(str):
    """a str subclass with user-defined equality: compares and hashes case-insensitively
    (after Unicode case folding) and ignoring surrounding whitespace - two different
    character sequences can be 'equal'"""

    def _k(self):
        return str.casefold(str.strip(self))

    def __eq__(self, other):
        return isinstance(other, str) and self._k() == CIStr._k(other)

    def __ne__(self, other):
        return not self == other

    def __hash__(self):
        return hash(self._k())

    def __repr__(self):
        return 'CIStr(%s)' % str.__repr__(self)


class LazyProxy:
    """a transparent proxy of the LocalProxy / SimpleLazyObject kind: isinstance() follows
    __class__ to the target's type, type() is always LazyProxy"""

    def __init__(self, target):
        object.__setattr__(self, '_t', target)

    __class__ = property(lambda self: type(object.__getattribute__(self, '_t')))

    def __getattr__(self, name):
        return getattr(object.__getattribute__(self, '_t'), name)

    def __len__(self):
        return len(object.__getattribute__(self, '_t'))

    def __iter__(self):
        return iter(object.__getattribute__(self, '_t'))

    def __bool__(self):
        return bool(object.__getattribute__(self, '_t'))

    def __getitem__(self, k):
        return object.__getattribute__(self, '_t')[k]

    def __contains__(self, k):
        return k in object.__getattribute__(self, '_t')

    def __eq__(self, other):
        return object.__getattribute__(self, '_t') == other

    def __hash__(self):
        return hash(repr(object.__getattribute__(self, '_t')))

    def __repr__(self):
        return 'LazyProxy(%r)' % (object.__getattribute__(self, '_t'),)


class ReentrantDict(dict):
    """a dict whose items() calls back into application code (the hook) before answering -
    what a logging handler, a signal handler, a finaliser or a lazy mapping does when it
    uses the library again while the library is using it"""
    hook = None

    def items(self):
        if ReentrantDict.hook is not None:
            ReentrantDict.hook()
        return dict.items(self)


class Opaque:
    """Stand-in for 'some arbitrary object' in wrong-type generators."""

    def __repr__(self):
        return '<Opaque>'

    def __eq__(self, other):
        return isinstance(other, Opaque)

    def __hash__(self):
        return 7


def to_json(v):
    if type(v) is ReentrantDict:
        return {'$reentrant': to_json(dict(v))}
    if type(v) is IntSub:
        return {'$intsub': int(v)}
    if type(v) is CIStr:
        return {'$cistr': str(v)}
    if type(v) is LazyProxy:
        return {'$proxy': to_json(object.__getattribute__(v, '_t'))}
    if v is None or isinstance(v, (bool, str)):
        return v
    if isinstance(v, int):
        return v
    if isinstance(v, float):
        return {'$f': v.hex() if math.isfinite(v) else repr(v)}
    if isinstance(v, bytes):
        return {'$b': v.hex()}
    if isinstance(v, bytearray):
        return {'$ba': bytes(v).hex()}
    if isinstance(v, memoryview):
        return {'$mv': bytes(v).hex()}
    if isinstance(v, decimal.Decimal):
        return {'$dec': str(v)}
    if isinstance(v, datetime.datetime):
        off = v.utcoffset()
        return {'$dt': [v.year, v.month, v.day, v.hour, v.minute, v.second,
                        v.microsecond,
                        ['ruletz', v.fold] if isinstance(v.tzinfo, RuleTZ) else
                        ('nulltz' if v.tzinfo is not None else None)
                        if off is None else
                        (off.days * 86400 + off.seconds if not off.microseconds else
                         {'s': off.days * 86400 + off.seconds,
                          'us': off.microseconds})]}
    if isinstance(v, datetime.date):
        return {'$date': [v.year, v.month, v.day]}
    if isinstance(v, time.struct_time):
        # 9 visible fields + the two hidden ones a localtime()/strptime('%z') result has
        return {'$st': list(v) + [getattr(v, 'tm_zone', None),
                                  getattr(v, 'tm_gmtoff', None)]}
    if isinstance(v, tuple):
        return {'$tuple': [to_json(x) for x in v]}
    if isinstance(v, list):
        return [to_json(x) for x in v]
    if isinstance(v, dict):
        return {'$dict': [[to_json(k), to_json(x)] for k, x in v.items()]}
    if isinstance(v, (set, frozenset)):
        return {'$set': sorted((to_json(x) for x in v), key=repr)}
    if isinstance(v, complex):
        return {'$complex': [v.real.hex(), v.imag.hex()]}
    if isinstance(v, range):
        return {'$range': [v.start, v.stop, v.step]}
    if isinstance(v, Opaque):
        return {'$obj': None}
    raise TypeError('to_json: unsupported %r' % type(v))


def from_json(j):
    if j is None or isinstance(j, (bool, str, int)):
        return j
    if isinstance(j, list):
        return [from_json(x) for x in j]
    if isinstance(j, dict):
        (tag, val), = j.items()
        if tag == '$reentrant':
            return ReentrantDict(from_json(val))
        if tag == '$intsub':
            return IntSub(val)
        if tag == '$cistr':
            return CIStr(val)
        if tag == '$proxy':
            return LazyProxy(from_json(val))
        if tag == '$f':
            return float.fromhex(val) if val not in ('nan', 'inf', '-inf') \
                else float(val)
        if tag == '$b':
            return bytes.fromhex(val)
        if tag == '$ba':
            return bytearray(bytes.fromhex(val))
        if tag == '$mv':
            return memoryview(bytes.fromhex(val))
        if tag == '$dec':
            return decimal.Decimal(val)
        if tag == '$dt':
            y, mo, d, h, mi, s, us, off = val
            if isinstance(off, list):
                return datetime.datetime(y, mo, d, h, mi, s, us, tzinfo=RULETZ,
                                         fold=off[1])
            if isinstance(off, dict):
                tz = datetime.timezone(datetime.timedelta(seconds=off['s'],
                                                          microseconds=off['us']))
                return datetime.datetime(y, mo, d, h, mi, s, us, tzinfo=tz)
            tz = None if off is None else NULLTZ if off == 'nulltz' else \
                datetime.timezone(datetime.timedelta(seconds=off))
            return datetime.datetime(y, mo, d, h, mi, s, us, tzinfo=tz)
        if tag == '$date':
            return datetime.date(*val)
        if tag == '$st':
            if len(val) == 11 and val[10] is None and val[9] is None:
                val = val[:9]
            return time.struct_time(tuple(val))
        if tag == '$tuple':
            return tuple(from_json(x) for x in val)
        if tag == '$dict':
            return {_hashable(from_json(k)): from_json(x) for k, x in val}
        if tag == '$set':
            return {_hashable(from_json(x)) for x in val}
        if tag == '$complex':
            return complex(float.fromhex(val[0]), float.fromhex(val[1]))
        if tag == '$range':
            return range(*val)
        if tag == '$obj':
            return Opaque()
    raise TypeError('from_json: unsupported %r' % (j,))


def _hashable(v):
    if isinstance(v, list):
        return tuple(_hashable(x) for x in v)
    return v


def dumps(case):
    return json.dumps(to_json(case), sort_keys=True, ensure_ascii=True,
                      separators=(',', ':'))


def digest(case):
    return hashlib.blake2b(dumps(case).encode(), digest_size=8).digest()


# --------------------------------------------------------------------------
# civil-date arithmetic in integers (no time / calendar / datetime.timestamp)

def days_from_civil(y, m, d):
    y -= m <= 2
    era = (y if y >= 0 else y - 399) // 400
    yoe = y - era * 400
    doy = (153 * (m + (-3 if m > 2 else 9)) + 2) // 5 + d - 1
    doe = yoe * 365 + yoe // 4 - yoe // 100 + doy
    return era * 146097 + doe - 719468


def civil_from_days(z):
    z += 719468
    era = (z if z >= 0 else z - 146096) // 146097
    doe = z - era * 146097
    yoe = (doe - doe // 1460 + doe // 36524 - doe // 146096) // 365
    y = yoe + era * 400
    doy = doe - (365 * yoe + yoe // 4 - yoe // 100)
    mp = (5 * doy + 2) // 153
    d = doy - (153 * mp + 2) // 5 + 1
    m = mp + (3 if mp < 10 else -9)
    return y + (m <= 2), m, d


def epoch_seconds(v):
    """Whole epoch seconds (floor) of a datetime / struct_time, naive == UTC.

    Integer arithmetic on the fields only."""
    if isinstance(v, time.struct_time):
        return (days_from_civil(v[0], v[1], v[2]) * 86400 + v[3] * 3600 +
                v[4] * 60 + v[5])
    off = v.utcoffset()
    offs = 0 if off is None else off.days * 86400 + off.seconds
    offus = 0 if off is None else off.microseconds
    total_us = ((days_from_civil(v.year, v.month, v.day) * 86400 +
                 v.hour * 3600 + v.minute * 60 + v.second - offs) * 1000000 +
                v.microsecond - offus)
    return total_us // 1000000


def utc_fields(seconds):
    days, rem = divmod(seconds, 86400)
    y, m, d = civil_from_days(days)
    return (y, m, d, rem // 3600, rem % 3600 // 60, rem % 60)


# --------------------------------------------------------------------------

def canon(v):
    """Hashable type-aware canonical form."""
    if v is None:
        return ('None',)
    t = type(v)
    if t is IntSub:
        return ('int', int(v))
    if t is CIStr:
        return ('str', str(v))
    if t is bool:
        return ('bool', v)
    if t is int:
        return ('int', v)
    if t is float:
        if v != v:
            return ('float', 'nan')
        return ('float', v.hex())
    if t is str:
        return ('str', v)
    if t is bytes:
        return ('bytes', v)
    if t is bytearray:
        return ('bytearray', bytes(v))
    if t is decimal.Decimal:
        if v.is_nan():
            return ('Decimal', 'nan')
        if v.is_infinite():
            return ('Decimal', str(v))
        if v == 0:
            return ('Decimal', '0')
        sign, digits, exp = v.normalize().as_tuple()
        return ('Decimal', sign, digits, exp)
    if t is datetime.datetime:
        off = v.utcoffset()
        return ('datetime', (v.year, v.month, v.day, v.hour, v.minute,
                             v.second, v.microsecond),
                None if off is None else
                (off.days * 86400 + off.seconds, off.microseconds)
                if off.microseconds else off.days * 86400 + off.seconds)
    if t is list:
        return ('list', tuple(canon(x) for x in v))
    if t is tuple:
        return ('tuple', tuple(canon(x) for x in v))
    if t is dict or t is ReentrantDict:
        return ('dict', tuple(sorted(((canon(k), canon(x))
                                      for k, x in v.items()), key=repr)))
    if t is time.struct_time:
        return ('struct_time', tuple(v))
    return ('other', t.__name__, repr(v))


def utc_datetime_canon(seconds):
    """canon() of the aware-UTC whole-second datetime for epoch `seconds`."""
    return ('datetime', utc_fields(seconds) + (0,), 0)


def short(v, limit=300):
    s = repr(v)
    return s if len(s) <= limit else s[:limit] + '...(%d chars)' % len(s)
