"""Independent reference encoder and decoder for AMQP 0-9-1 (+ RabbitMQ errata).

Never imports pamqp and never uses ``struct``: integers go through
``int.to_bytes`` / ``int.from_bytes``, IEEE bit patterns through ``ctypes``, dates
through integer civil arithmetic (pbt.canon).  Argument order and wire types come from
pbt.spec_table.  Grammar: DESIGN.md Appendix C.

Where the grammar allows several encodings the reference follows the choices that the
*properties* document for the library (C03/C11/C12): bool->t, int->first of b,s,u,I,i,l
that fits (legacy: b,s,I,l), float->f, Decimal->D, str->S, datetime/struct_time->T
(whole seconds, UTC), dict->F (keys ascending, keys over 128 chars truncated), list->A,
bytearray->x, None->V.
"""
import ctypes
import datetime
import decimal
import time

from pbt import canon, spec_table

FRAME_END = 0xCE


class Refuse(Exception):
    """The reference says this value is not encodable (encoder must raise)."""


class Malformed(Exception):
    """The reference decoder says these bytes are not a well-formed frame."""


# ------------------------------------------------------------------ primitives

def u(n, width):
    if not (0 <= n < (1 << (8 * width))):
        raise Refuse('unsigned %d-bit overflow: %r' % (8 * width, n))
    return n.to_bytes(width, 'big')


def s(n, width):
    lim = 1 << (8 * width - 1)
    if not (-lim <= n < lim):
        raise Refuse('signed %d-bit overflow: %r' % (8 * width, n))
    return n.to_bytes(width, 'big', signed=True)


def f32_bits(v):
    c = ctypes.c_float(v)
    if v == v and abs(v) != float('inf') and abs(c.value) == float('inf'):
        raise Refuse('double outside single-precision range')
    return ctypes.c_uint32.from_buffer(c).value.to_bytes(4, 'big')


def f64_bits(v):
    return ctypes.c_uint64.from_buffer(ctypes.c_double(v)).value.to_bytes(
        8, 'big')


def f32_round(v):
    """Value after IEEE single rounding (what decoding an 'f' must give)."""
    return ctypes.c_float(v).value


def bits_f32(b):
    return ctypes.c_float.from_buffer(
        ctypes.c_uint32(int.from_bytes(b, 'big'))).value


def bits_f64(b):
    return ctypes.c_double.from_buffer(
        ctypes.c_uint64(int.from_bytes(b, 'big'))).value


def shortstr(v):
    if not isinstance(v, str):
        raise Refuse('short string must be str')
    raw = v.encode('utf-8')       # lone surrogates -> UnicodeEncodeError (refused)
    if len(raw) > 255:
        raise Refuse('short string over 255 bytes')
    return bytes([len(raw)]) + raw


def longstr(v):
    if not isinstance(v, str):
        raise Refuse('long string must be str')
    raw = v.encode('utf-8')
    return u(len(raw), 4) + raw


LADDER_DEFAULT = [('b', 1, True), ('s', 2, True), ('u', 2, False),
                  ('I', 4, True), ('i', 4, False), ('l', 8, True)]
LADDER_LEGACY = [('b', 1, True), ('s', 2, True), ('I', 4, True), ('l', 8, True)]


def int_tag(n, legacy=False):
    """(tag, width, signed) of the first ladder rung that holds n."""
    for tag, width, signed in (LADDER_LEGACY if legacy else LADDER_DEFAULT):
        if signed:
            lim = 1 << (8 * width - 1)
            if -lim <= n < lim:
                return tag, width, signed
        elif 0 <= n < (1 << (8 * width)):
            return tag, width, signed
    raise Refuse('integer outside [-2^63, 2^63-1]')


def decimal_parts(v):
    """(scale, unscaled) with value == unscaled * 10**-scale, minimal re-scaling."""
    if not v.is_finite():
        raise Refuse('non-finite decimal')
    sign, digits, exp = v.as_tuple()
    n = int(''.join(map(str, digits)) or '0')
    if exp >= 0:
        scale, unscaled = 0, n * 10 ** exp
    else:
        scale, unscaled = -exp, n
    if sign:
        unscaled = -unscaled
    return scale, unscaled


def enc_decimal(v):
    scale, unscaled = decimal_parts(v)
    if scale > 255:
        raise Refuse('decimal scale over 255')
    return u(scale, 1) + s(unscaled, 4)


def enc_timestamp(v):
    return u(canon.epoch_seconds(v), 8)


def enc_value(v, legacy=False):
    if isinstance(v, bool):
        return b't' + (b'\x01' if v else b'\x00')
    if isinstance(v, int):
        tag, width, signed = int_tag(v, legacy)
        return tag.encode() + (s(v, width) if signed else u(v, width))
    if isinstance(v, decimal.Decimal):
        return b'D' + enc_decimal(v)
    if isinstance(v, float):
        return b'f' + f32_bits(v)
    if isinstance(v, str):
        return b'S' + longstr(v)
    if isinstance(v, (datetime.datetime, time.struct_time)):
        return b'T' + enc_timestamp(v)
    if isinstance(v, dict):
        return b'F' + enc_table(v, legacy)
    if isinstance(v, list):
        return b'A' + enc_array(v, legacy)
    if isinstance(v, bytearray):
        return b'x' + u(len(v), 4) + bytes(v)
    if v is None:
        return b'V'
    raise Refuse('not a field value: %r' % type(v))


def enc_array(v, legacy=False):
    body = b''.join(enc_value(x, legacy) for x in v)
    return u(len(body), 4) + body


def enc_table(v, legacy=False):
    if not v:
        return b'\x00\x00\x00\x00'
    items = []
    for k in v:
        if not isinstance(k, str):
            raise Refuse('table key must be str')
    for k in sorted(v):
        items.append(shortstr(k[:128]) + enc_value(v[k], legacy))
    body = b''.join(items)
    return u(len(body), 4) + body


# ------------------------------------------------------------------ frames

def envelope(ftype, channel, payload):
    return bytes([ftype]) + u(channel, 2) + u(len(payload), 4) + payload + \
        bytes([FRAME_END])


def enc_arg(value, wire_type, legacy=False):
    if wire_type == 'octet':
        return u(_int(value), 1)
    if wire_type == 'short':
        return u(_int(value), 2)
    if wire_type == 'long':
        return u(_int(value), 4)
    if wire_type == 'longlong':
        return s(_int(value), 8)
    if wire_type == 'shortstr':
        return shortstr(value)
    if wire_type == 'longstr':
        return longstr(value)
    if wire_type == 'table':
        return enc_table(value, legacy)
    if wire_type == 'timestamp':
        return enc_timestamp(value)
    raise Refuse('unknown wire type ' + wire_type)


def _int(v):
    if not isinstance(v, int):
        raise Refuse('int required')
    return int(v)


def enc_method_payload(dotted, values, legacy=False):
    """values: mapping python-name -> value (spec order applied here)."""
    m = spec_table.BY_NAME[dotted]
    out = [u(m.class_id, 2), u(m.method_id, 2)]
    bits, nbits = 0, 0
    for f in m.fields:
        if f.type == 'bit':
            if nbits == 8:
                out.append(bytes([bits]))
                bits, nbits = 0, 0
            if values[f.name]:
                bits |= 1 << nbits
            nbits += 1
            continue
        if nbits:
            out.append(bytes([bits]))
            bits, nbits = 0, 0
        out.append(enc_arg(values[f.name], f.type, legacy))
    if nbits:
        out.append(bytes([bits]))
    return b''.join(out)


def enc_method_frame(dotted, values, channel, legacy=False):
    return envelope(1, channel, enc_method_payload(dotted, values, legacy))


def enc_properties(props, legacy=False):
    """props: mapping python-name -> value; None and '' mean 'not set'."""
    flags, parts = 0, []
    for name, _, wire_type, bit in spec_table.PROPERTIES:
        v = props.get(name)
        if v is None or (isinstance(v, str) and v == ''):
            continue
        flags |= 1 << bit
        parts.append(enc_arg(v, wire_type, legacy))
    return u(flags, 2) + b''.join(parts)


def enc_header_frame(props, body_size, channel, legacy=False):
    payload = u(spec_table.BASIC_CLASS_ID, 2) + u(0, 2) + u(body_size, 8) + \
        enc_properties(props, legacy)
    return envelope(2, channel, payload)


def enc_body_frame(data, channel):
    return envelope(3, channel, bytes(data))


def enc_heartbeat():
    return b'\x08\x00\x00\x00\x00\x00\x00\xce'


def enc_protocol_header(major, minor, revision):
    return b'AMQP\x00' + u(major, 1) + u(minor, 1) + u(revision, 1)


# ------------------------------------------------------------------ decoder

class MsTimestamp:
    """A 'T' value above 2^32-1: the library documents reading it as milliseconds."""

    def __init__(self, ms):
        self.ms = ms

    def __repr__(self):
        return 'MsTimestamp(%d)' % self.ms


MAX_DATETIME_SECONDS = 253402300799        # 9999-12-31T23:59:59Z


def _need(buf, pos, n):
    if pos + n > len(buf):
        raise Malformed('truncated: need %d bytes at %d of %d' %
                        (n, pos, len(buf)))


def dec_uint(buf, pos, width):
    _need(buf, pos, width)
    return int.from_bytes(buf[pos:pos + width], 'big'), pos + width


def dec_sint(buf, pos, width):
    _need(buf, pos, width)
    return int.from_bytes(buf[pos:pos + width], 'big', signed=True), pos + width


def dec_shortstr(buf, pos):
    n, pos = dec_uint(buf, pos, 1)
    _need(buf, pos, n)
    try:
        return buf[pos:pos + n].decode('utf-8'), pos + n
    except UnicodeDecodeError:
        raise Malformed('short string is not UTF-8')


def dec_longstr(buf, pos):
    n, pos = dec_uint(buf, pos, 4)
    _need(buf, pos, n)
    raw = bytes(buf[pos:pos + n])
    try:
        return raw.decode('utf-8'), pos + n
    except UnicodeDecodeError:
        return raw, pos + n


def dec_timestamp(buf, pos):
    n, pos = dec_uint(buf, pos, 8)
    if n <= 0xFFFFFFFF:
        y, mo, d, h, mi, sec = canon.utc_fields(n)
        return datetime.datetime(y, mo, d, h, mi, sec,
                                 tzinfo=datetime.timezone.utc), pos
    return MsTimestamp(n), pos


def dec_value(buf, pos, depth=0):
    _need(buf, pos, 1)
    tag = buf[pos:pos + 1]
    pos += 1
    if tag == b't':
        v, pos = dec_uint(buf, pos, 1)
        return v != 0, pos
    if tag == b'b':
        return dec_sint(buf, pos, 1)
    if tag == b'B':
        return dec_uint(buf, pos, 1)
    if tag == b's':
        return dec_sint(buf, pos, 2)
    if tag == b'u':
        return dec_uint(buf, pos, 2)
    if tag == b'I':
        return dec_sint(buf, pos, 4)
    if tag == b'i':
        return dec_uint(buf, pos, 4)
    if tag in (b'l', b'L'):
        return dec_sint(buf, pos, 8)
    if tag == b'f':
        _need(buf, pos, 4)
        return bits_f32(buf[pos:pos + 4]), pos + 4
    if tag == b'd':
        _need(buf, pos, 8)
        return bits_f64(buf[pos:pos + 8]), pos + 8
    if tag == b'D':
        scale, pos = dec_uint(buf, pos, 1)
        unscaled, pos = dec_sint(buf, pos, 4)
        return decimal.Decimal(unscaled).scaleb(-scale), pos
    if tag == b'S':
        return dec_longstr(buf, pos)
    if tag == b'A':
        return dec_array(buf, pos, depth + 1)
    if tag == b'T':
        return dec_timestamp(buf, pos)
    if tag == b'F':
        return dec_table(buf, pos, depth + 1)
    if tag in (b'V', b'\x00'):
        return None, pos
    if tag == b'x':
        n, pos = dec_uint(buf, pos, 4)
        _need(buf, pos, n)
        return bytearray(buf[pos:pos + n]), pos + n
    raise Malformed('unknown field type tag %r' % tag)


def dec_array(buf, pos, depth=0):
    n, pos = dec_uint(buf, pos, 4)
    _need(buf, pos, n)
    end = pos + n
    out = []
    sub = buf if end == len(buf) else buf[:end]
    while pos < end:
        v, pos = dec_value(sub, pos, depth)
        out.append(v)
    return out, end


def dec_table(buf, pos, depth=0, order=None):
    n, pos = dec_uint(buf, pos, 4)
    _need(buf, pos, n)
    end = pos + n
    out = {}
    sub = buf if end == len(buf) else buf[:end]
    while pos < end:
        k, pos = dec_shortstr(sub, pos)
        v, pos = dec_value(sub, pos, depth)
        out[k] = v          # later duplicate wins (dict semantics)
        if order is not None:
            order.append(k)
    return out, end


def walk_table_keys(buf, pos=0):
    """Yield, for every table at every nesting level of an encoded table, the list
    of keys in wire order (used by C12's ascending-order clause)."""
    found = []

    def table(p):
        n, p = dec_uint(buf, p, 4)
        end = p + n
        keys = []
        while p < end:
            k, p = dec_shortstr(buf, p)
            keys.append(k)
            p = value(p)
        found.append(keys)
        return end

    def array(p):
        n, p = dec_uint(buf, p, 4)
        end = p + n
        while p < end:
            p = value(p)
        return end

    def value(p):
        tag = buf[p:p + 1]
        if tag == b'F':
            return table(p + 1)
        if tag == b'A':
            return array(p + 1)
        _, q = dec_value(buf, p)
        return q

    table(pos)
    return found


def walk_tags(buf, pos=0, kind='value'):
    """All type tags (as str) appearing anywhere in an encoded value/table/array."""
    tags = []

    def table(p):
        n, p = dec_uint(buf, p, 4)
        end = p + n
        while p < end:
            _, p = dec_shortstr(buf, p)
            p = value(p)
        return end

    def array(p):
        n, p = dec_uint(buf, p, 4)
        end = p + n
        while p < end:
            p = value(p)
        return end

    def value(p):
        tag = buf[p:p + 1]
        tags.append(tag.decode('latin-1'))
        if tag == b'F':
            return table(p + 1)
        if tag == b'A':
            return array(p + 1)
        _, q = dec_value(buf, p)
        return q

    {'value': value, 'table': table, 'array': array}[kind](pos)
    return tags


def dec_method_payload(buf):
    idx, pos = dec_uint(buf, 0, 4)
    m = spec_table.BY_INDEX.get(idx)
    if m is None:
        raise Malformed('unknown method index %#x' % idx)
    values = {}
    bitpos = None
    for f in m.fields:
        if f.type == 'bit':
            if bitpos is None or bitpos == 8:
                _need(buf, pos, 1)
                octet = buf[pos]
                pos += 1
                bitpos = 0
            values[f.name] = bool(octet >> bitpos & 1)
            bitpos += 1
            continue
        bitpos = None
        values[f.name], pos = dec_arg(buf, pos, f.type)
    if pos != len(buf):
        raise Malformed('%d trailing payload bytes' % (len(buf) - pos))
    return m.dotted, values


def dec_arg(buf, pos, wire_type):
    if wire_type == 'octet':
        return dec_uint(buf, pos, 1)
    if wire_type == 'short':
        return dec_uint(buf, pos, 2)
    if wire_type == 'long':
        return dec_uint(buf, pos, 4)
    if wire_type == 'longlong':
        return dec_sint(buf, pos, 8)
    if wire_type == 'shortstr':
        return dec_shortstr(buf, pos)
    if wire_type == 'longstr':
        return dec_longstr(buf, pos)
    if wire_type == 'table':
        return dec_table(buf, pos)
    if wire_type == 'timestamp':
        return dec_timestamp(buf, pos)
    raise Malformed('unknown wire type')


def dec_header_payload(buf):
    class_id, pos = dec_uint(buf, 0, 2)
    weight, pos = dec_uint(buf, pos, 2)
    body_size, pos = dec_uint(buf, pos, 8)
    flags, nwords = 0, 0
    while True:
        word, pos = dec_uint(buf, pos, 2)
        if nwords == 0:
            flags = word
        nwords += 1
        if not word & 1:
            break
    props = {}
    for name, _, wire_type, bit in spec_table.PROPERTIES:
        if flags >> bit & 1:
            props[name], pos = dec_arg(buf, pos, wire_type)
    if pos != len(buf):
        raise Malformed('%d trailing payload bytes' % (len(buf) - pos))
    return class_id, weight, body_size, props, nwords


def dec_frame(buf):
    """-> (consumed, channel, kind, detail).  kind in method/header/body/heartbeat/
    protocol."""
    if buf[:4] == b'AMQP':
        if len(buf) < 8:
            raise Malformed('short protocol header')
        return 8, 0, 'protocol', (buf[5], buf[6], buf[7])
    if len(buf) < 7:
        raise Malformed('short frame header')
    ftype = buf[0]
    channel = int.from_bytes(buf[1:3], 'big')
    size = int.from_bytes(buf[3:7], 'big')
    if len(buf) < size + 8:
        raise Malformed('incomplete frame')
    if buf[7 + size] != FRAME_END:
        raise Malformed('bad frame end')
    payload = bytes(buf[7:7 + size])
    if ftype == 8:
        if size:
            raise Malformed('heartbeat with payload')
        return 8, channel, 'heartbeat', None
    if ftype == 1:
        return size + 8, channel, 'method', dec_method_payload(payload)
    if ftype == 2:
        return size + 8, channel, 'header', dec_header_payload(payload)
    if ftype == 3:
        if not size:
            raise Malformed('empty body frame')
        return size + 8, channel, 'body', payload
    raise Malformed('unknown frame type %d' % ftype)


# ------------------------------------------------------------------ comparison

class Diff(str):
    """message describing the first disagreement; .kind = type name of the expected
    value at that point (used for root-cause bucketing)"""
    kind = '?'


def _diff(kind, msg):
    d = Diff(msg)
    d.kind = kind
    return d


def agree(ref, lib, path='$'):
    """None if the library value `lib` is what the reference assigned (`ref`), else a
    Diff.  Type-exact; MsTimestamp with tolerance 500 us."""
    if isinstance(ref, MsTimestamp):
        if ref.ms // 1000 > MAX_DATETIME_SECONDS:
            return _diff('ms-timestamp-overflow',
                         '%s: timestamp beyond year 9999 must be refused, got %r'
                         % (path, lib))
        if type(lib) is not datetime.datetime or lib.utcoffset() != \
                datetime.timedelta(0):
            return _diff('ms-timestamp', '%s: expected aware UTC datetime, got %r'
                         % (path, lib))
        got_us = canon.epoch_seconds(lib) * 1000000 + lib.microsecond
        if abs(got_us - ref.ms * 1000) > 500:
            return _diff('ms-timestamp', '%s: ms timestamp %d decoded as %r' %
                         (path, ref.ms, lib))
        return None
    if type(ref) is dict:
        if type(lib) is not dict:
            return _diff('dict', '%s: expected dict, got %s' %
                         (path, type(lib).__name__))
        if set(ref) != set(lib):
            return _diff('dict-keys', '%s: key sets differ: %r vs %r' % (
                path, sorted(ref)[:8], sorted(lib)[:8]))
        for k in ref:
            r = agree(ref[k], lib[k], '%s[%r]' % (path, k))
            if r:
                return r
        return None
    if type(ref) is list:
        if type(lib) is not list:
            return _diff('list', '%s: expected list, got %s' %
                         (path, type(lib).__name__))
        if len(ref) != len(lib):
            return _diff('list-len', '%s: list length %d vs %d' %
                         (path, len(ref), len(lib)))
        for i, (a, b) in enumerate(zip(ref, lib)):
            r = agree(a, b, '%s[%d]' % (path, i))
            if r:
                return r
        return None
    if type(ref) is decimal.Decimal and type(lib) is decimal.Decimal and \
            ref.is_finite() and lib.is_finite() and ref == lib:
        # "equal to the input": 1E+2 and 100 (or 1.10 and 1.1) are the same number; the
        # statement does not promise the representation (digits / exponent split)
        return None
    if canon.canon(ref) != canon.canon(lib):
        kind = type(ref).__name__
        if isinstance(ref, (int, decimal.Decimal)) and \
                not isinstance(ref, bool) and ref < 0:
            kind = 'negative-' + kind
        return _diff(kind, '%s: expected %s, got %s' % (
            path, canon.short(ref), canon.short(lib)))
    return None


def normalise(v):
    """C03's documented normalisation N(v) of an encodable field value: what decoding
    the encoding must return."""
    if isinstance(v, bool) or v is None:
        return v
    if isinstance(v, float):
        return f32_round(v)
    if isinstance(v, (datetime.datetime, time.struct_time)):
        y, mo, d, h, mi, sec = canon.utc_fields(canon.epoch_seconds(v))
        return datetime.datetime(y, mo, d, h, mi, sec,
                                 tzinfo=datetime.timezone.utc)
    if isinstance(v, list):
        return [normalise(x) for x in v]
    if isinstance(v, dict):
        return {k[:128]: normalise(x) for k, x in v.items()}
    if isinstance(v, decimal.Decimal):
        return v
    return v
