"""Shared runner: tiers, seeds, sharding over cores, evidence, replay files, ledger.

A property module (pbt/props/cNN.py) exposes

    PROPERTY_ID, LEVEL, RULE, ASSUMPTIONS, DESIGN_REF
    COMPONENTS = [Component(...), ...]
    selftest()            optional; harness self-check, raises on failure (exit 2)

A Component couples a *case source* with an *oracle*:

    strategy(tier)               Hypothesis strategy producing cases         (kind 'hyp')
    cases(tier, shard, nshards)  deterministic enumeration of cases          (kind 'sweep')
    bulk(tier, shard, nshards, rec)  self-driven sweep for huge finite spaces (kind 'bulk')
    check(case)                  the oracle: returns None, or raises Violation(bucket, msg)
    nontrivial(case) -> bool     the property's stated non-triviality rule
    classes(case) -> labels      what the generator actually produced (histogram)

Every case is a tagged-JSON-serialisable value (pbt.canon), so a failing case is written
verbatim into the replay file and ``--replay`` re-evaluates ``check`` on it without
Hypothesis.

Exit codes: 0 property held on everything explored (KNOWN-FINDING lines allowed),
1 at least one ``VIOLATION property=<id> replay=<path>`` line, 2 harness error /
inconclusive (never a VIOLATION line).
"""
import collections
import hashlib
import importlib
import json
import multiprocessing
import os
import re
import signal
import sys
import time
import traceback

VERIF = os.path.dirname(os.path.dirname(os.path.abspath(__file__)))
REPO = os.environ.get('PAMQP_REPO', '/repo')
NCPU = int(os.environ.get('VERIF_JOBS', '16'))


def setup_imports():
    sys.dont_write_bytecode = True
    deps = os.path.join(VERIF, '.deps')
    if os.path.isdir(deps) and deps not in sys.path:
        sys.path.insert(0, deps)
    for p in (VERIF, REPO):
        if p in sys.path:
            sys.path.remove(p)
        sys.path.insert(0, p)
    import warnings
    warnings.simplefilter('ignore')
    if sys.flags.bytes_warning > 1:       # interpreter started with -bb: keep its meaning
        warnings.filterwarnings('error', category=BytesWarning)
    set_logging(False)
    import pamqp
    here = os.path.realpath(os.path.dirname(pamqp.__file__))
    want = os.path.realpath(os.path.join(REPO, 'pamqp'))
    if here != want:
        raise HarnessError('pamqp imported from %s, expected %s' % (here, want))


class HarnessError(Exception):
    pass


_NULL_HANDLER = []


def set_logging(debug):
    """Two logging configurations an application may choose: everything disabled, or
    the library's loggers at DEBUG (so that every LOGGER.isEnabledFor / debug / warning
    path of the library executes) with a NullHandler.  Checks alternate between the two
    from one evaluated case to the next; library behaviour must not depend on it."""
    import logging
    lg = logging.getLogger('pamqp')
    if not _NULL_HANDLER:
        # a real handler: every record is formatted (message % args) and written to a
        # discarded stream, as an application's file or console handler would do
        logging.raiseExceptions = False
        h = logging.StreamHandler(open(os.devnull, 'w'))
        h.setFormatter(logging.Formatter('%(asctime)s %(name)s %(levelname)s %(message)s'))
        _NULL_HANDLER.append(h)
        lg.addHandler(h)
        lg.propagate = False
    if debug:
        logging.disable(logging.NOTSET)
        lg.setLevel(logging.DEBUG)
    else:
        lg.setLevel(logging.NOTSET)
        logging.disable(logging.CRITICAL)


class Violation(Exception):
    """Raised by an oracle.  bucket identifies the root cause class."""

    def __init__(self, bucket, message):
        super().__init__(message)
        self.bucket = bucket
        self.message = message


class CaseTimeout(KeyboardInterrupt):
    pass


class ShrinkTimeout(KeyboardInterrupt):
    pass


def lib_site(exc):
    """'module.function' of the innermost pamqp frame of an exception traceback."""
    tb = exc.__traceback__
    site = 'outside-pamqp'
    root = os.path.realpath(os.path.join(REPO, 'pamqp'))
    while tb is not None:
        code = tb.tb_frame.f_code
        fn = os.path.realpath(code.co_filename)
        if fn.startswith(root):
            site = '%s.%s' % (os.path.splitext(os.path.basename(fn))[0],
                              code.co_name)
        tb = tb.tb_next
    return site


class Component:
    def __init__(self, name, check, strategy=None, cases=None, bulk=None,
                 nontrivial=None, classes=None, budget=None, shards=None,
                 distinct_by_construction=False, exhaustive=False,
                 describe=''):
        self.name = name
        self.check = check
        self.strategy = strategy
        self.cases = cases
        self.bulk = bulk
        self.nontrivial = nontrivial or (lambda case: True)
        self.classes = classes or (lambda case: ())
        self.budget = budget or {'quick': 1600, 'thorough': 64000}
        self.shards = shards or {'quick': NCPU, 'thorough': NCPU}
        self.distinct_by_construction = distinct_by_construction
        self.exhaustive = exhaustive
        self.describe = describe
        self.kind = 'hyp' if strategy else ('sweep' if cases else 'bulk')


class Recorder:
    """Per-task counters; merged by the parent."""
    MAX_DIGESTS = 4_000_000

    def __init__(self, comp):
        from pbt import canon
        self.canon = canon
        self.comp = comp
        self.evaluations = 0
        self.nontrivial_count = 0
        self.digests = set()
        self.classes = collections.Counter()
        self.samples = []
        self.failures = {}      # bucket -> dict(count, case(json str), message)
        self.harness_errors = []
        self.extra = collections.Counter()
        self.inflight = None

    # -- generic per-case path ------------------------------------------------
    def evaluate(self, case):
        comp = self.comp
        self.evaluations += 1
        try:
            nt = bool(comp.nontrivial(case))
            for label in comp.classes(case):
                self.classes[label] += 1
        except Exception:
            self.harness_errors.append(traceback.format_exc())
            raise HarnessError('classifier failed')
        violation = None
        info = None
        set_logging(self.evaluations % 2 == 0)
        if self.inflight:
            with open(self.inflight, 'w') as f:
                f.write(self.canon.dumps(case))
        try:
            info = comp.check(case)
        except Violation as v:
            self.fail(v.bucket, case, v.message)
            violation = v
        except CaseTimeout:
            raise
        except HarnessError as e:
            self.harness_errors.append('%s on case %s' %
                                       (e, self.canon.short(case)))
            raise
        except Exception as e:
            site = lib_site(e)
            if site == 'outside-pamqp' or isinstance(e, (MemoryError, RecursionError)):
                self.harness_errors.append(
                    'unexpected exception in oracle of %s on case %s\n%s' %
                    (comp.name, self.canon.short(case), traceback.format_exc()))
                raise HarnessError('oracle crashed')
            # raised *inside the library* by a call the oracle expects to succeed on an
            # input of the property's domain (every call that may legitimately raise is
            # made through lib.call or an explicit try): the library's failure, not ours
            violation = Violation('raises:%s@%s' % (type(e).__name__, site),
                                  'the library raised %s where the oracle of %s needs an '
                                  'answer: %s' % (type(e).__name__, comp.name,
                                                  self.canon.short(str(e), 200)))
            self.fail(violation.bucket, case, violation.message)
        if info:
            if isinstance(info, dict):
                self.extra['sub_evaluations'] += info.get('sub_evaluations', 0)
                if 'nontrivial' in info:   # rule decided by what the run observed
                    nt = bool(info['nontrivial'])
                info = info.get('labels', ())
            for label in info:
                self.classes[label] += 1
        if nt:
            self.nontrivial_count += 1
            if not comp.distinct_by_construction and \
                    len(self.digests) < self.MAX_DIGESTS:
                self.digests.add(self.canon.digest(case))
        n = self.evaluations
        if nt and (len(self.samples) < 2 or (n & (n - 1)) == 0) \
                and len(self.samples) < 6:
            self.samples.append(sample_of(case))
        return violation

    # -- bulk path ---------------------------------------------------------------
    def count(self, evaluations, nontrivial, label=None):
        self.evaluations += evaluations
        self.nontrivial_count += nontrivial
        if label:
            self.classes[label] += evaluations

    def sample(self, case):
        if len(self.samples) < 6:
            self.samples.append(sample_of(case))

    def fail(self, bucket, case, message):
        text = self.canon.dumps(case)
        cur = self.failures.get(bucket)
        if cur is None:
            self.failures[bucket] = {'count': 1, 'case': text,
                                     'message': message}
        else:
            cur['count'] += 1
            if len(text) < len(cur['case']):
                cur['case'] = text
                cur['message'] = message

    def result(self):
        return {
            'component': self.comp.name,
            'evaluations': self.evaluations,
            'nontrivial_count': self.nontrivial_count,
            'digests': self.digests,
            'classes': dict(self.classes),
            'samples': self.samples,
            'failures': self.failures,
            'harness_errors': self.harness_errors,
            'extra': dict(self.extra),
        }


def sample_of(case):
    from pbt import canon
    text = canon.dumps(case)
    if len(text) <= 1500:
        return json.loads(text)
    return {'$truncated': text[:1500], 'chars': len(text)}


HYP_CHUNK = 2500


def derive_seed(seed, comp_idx, shard):
    h = hashlib.blake2b(('%d/%d/%d' % (seed, comp_idx, shard)).encode(),
                        digest_size=4).digest()
    return int.from_bytes(h, 'big')


def _alarm(signum, frame):
    raise CaseTimeout()


def run_task(args):
    (modname, comp_idx, shard, nshards, tier, seed, known_patterns,
     shrink_s) = args
    try:
        setup_imports()
        mod = importlib.import_module(modname)
        comp = mod.COMPONENTS[comp_idx]
        rec = Recorder(comp)
        if getattr(mod, 'WORKER_DEATH_IS_VIOLATION', False):
            rec.inflight = inflight_path(os.getpid())
        signal.signal(signal.SIGALRM, _alarm)
        watchdog = int(os.environ.get('VERIF_TASK_TIMEOUT',
                                      '900' if tier == 'quick' else '14400'))
        signal.alarm(watchdog)
        try:
            if comp.kind == 'hyp':
                _run_hyp(comp, rec, comp_idx, shard, nshards, tier, seed,
                         known_patterns, shrink_s)
            elif comp.kind == 'sweep':
                for case in comp.cases(tier, shard, nshards):
                    rec.evaluate(case)
            else:
                comp.bulk(tier, shard, nshards, rec)
        except CaseTimeout:
            rec.harness_errors.append(
                'task %s shard %d exceeded its watchdog of %d s (inconclusive)'
                % (comp.name, shard, watchdog))
        except HarnessError:
            pass
        finally:
            signal.alarm(0)
        return rec.result()
    except BaseException:
        return {'component': '%s[%d]' % (modname, comp_idx), 'evaluations': 0,
                'nontrivial_count': 0, 'digests': set(), 'classes': {},
                'samples': [], 'failures': {}, 'extra': {},
                'harness_errors': [traceback.format_exc()]}


def _child(conn, task):
    try:
        conn.send(run_task(task))
    finally:
        conn.close()


def run_tasks(tasks, nproc, mod):
    """Run tasks in forked worker processes (one process per task); a worker that dies
    without delivering a result is reported, never waited for."""
    import multiprocessing.connection as mpc
    ctx = multiprocessing.get_context('fork')
    pending = list(tasks)
    running = {}
    results = []
    cpu_marks = {}
    killed_for_cpu = set()

    def dead(task, proc):
        comp = mod.COMPONENTS[task[1]]
        r = {'component': comp.name, 'evaluations': 0, 'nontrivial_count': 0,
             'digests': set(), 'classes': {}, 'samples': [], 'failures': {},
             'extra': {}, 'harness_errors': []}
        path = inflight_path(proc.pid)
        case_text = None
        if os.path.exists(path):
            with open(path) as f:
                case_text = f.read()
            os.unlink(path)
        if case_text and proc.pid in killed_for_cpu:
            r['failures']['cpu-time'] = {
                'count': 1, 'case': case_text,
                'message': 'decoding this one case used more than %d s of CPU time '
                           '(the worker was stopped)' % mod.CPU_SECONDS_PER_CASE}
        elif case_text and getattr(mod, 'WORKER_DEATH_IS_VIOLATION', False):
            r['failures']['worker-died:exit=%s' % proc.exitcode] = {
                'count': 1, 'case': case_text,
                'message': 'worker process died (exit code %s) while evaluating '
                           'this case' % proc.exitcode}
        else:
            r['harness_errors'].append(
                'worker for %s shard %d died with exit code %s' %
                (comp.name, task[2], proc.exitcode))
        return r

    while pending or running:
        while pending and len(running) < nproc:
            t = pending.pop(0)
            parent, child = ctx.Pipe(duplex=False)
            p = ctx.Process(target=_child, args=(child, t))
            p.start()
            child.close()
            running[p] = (parent, t)
        mpc.wait([c for c, _ in running.values()] +
                 [p.sentinel for p in running], timeout=5)
        if getattr(mod, 'CPU_SECONDS_PER_CASE', None):
            # C08 backstop for work that executes no pamqp lines (e.g. a C-level regex):
            # a worker that burns more than the limit of *CPU time* on one in-flight case
            # is stopped; dead() turns the in-flight case into the violation
            for p in list(running):
                path = inflight_path(p.pid)
                try:
                    stamp = os.stat(path).st_mtime_ns
                    with open('/proc/%d/stat' % p.pid) as f:
                        parts = f.read().rsplit(')', 1)[1].split()
                    cpu = (int(parts[11]) + int(parts[12])) / os.sysconf('SC_CLK_TCK')
                except (OSError, IndexError, ValueError):
                    continue
                seen = cpu_marks.get(p.pid)
                if seen is None or seen[0] != stamp:
                    cpu_marks[p.pid] = (stamp, cpu)
                elif cpu - seen[1] > mod.CPU_SECONDS_PER_CASE:
                    killed_for_cpu.add(p.pid)
                    p.kill()
        for p in list(running):
            conn, t = running[p]
            got = None
            if conn.poll():
                try:
                    got = conn.recv()
                except (EOFError, OSError):
                    got = None
                p.join()
                results.append(got if got is not None else dead(t, p))
            elif not p.is_alive():
                p.join()
                results.append(dead(t, p))
            else:
                continue
            conn.close()
            del running[p]
            path = inflight_path(p.pid)
            if os.path.exists(path):
                os.unlink(path)
    return results


def inflight_path(pid):
    base = '/dev/shm' if os.path.isdir('/dev/shm') else '/tmp'
    return os.path.join(base, 'pamqp-verif-inflight-%d' % pid)


def _is_known(bucket, known_patterns):
    return any(re.fullmatch(p, bucket) for p in known_patterns)


def _run_hyp(comp, rec, comp_idx, shard, nshards, tier, seed, known_patterns,
             shrink_s):
    import hypothesis
    from hypothesis import HealthCheck, Phase, given, settings
    n = max(1, comp.budget[tier] // nshards)
    strat = comp.strategy(tier)
    s = derive_seed(seed, comp_idx, shard)
    common = dict(database=None, deadline=None, derandomize=False,
                  report_multiple_bugs=False, print_blob=False,
                  suppress_health_check=list(HealthCheck))

    # One Hypothesis run keeps a tree of every choice sequence it has generated; with tens of
    # thousands of large cases per shard (thorough tier) that tree grew to > 7 GB per worker
    # and the OOM killer shot the workers.  The budget is therefore spent in runs of at most
    # HYP_CHUNK cases, each with its own derived seed (run 0 keeps the shard's seed, so the
    # quick tier - whose per-shard budgets are below the chunk size - is unchanged).
    import gc
    first_seen = {}
    chunks = []
    done = 0
    while done < n:
        k = len(chunks)
        size = min(HYP_CHUNK, n - done)
        sk = s if k == 0 else derive_seed(s, comp_idx, 1000003 + k)
        chunks.append((sk, size))
        before = set(rec.failures)

        @hypothesis.seed(sk)
        @settings(max_examples=size, phases=[Phase.generate], **common)
        @given(strat)
        def collect(case):
            rec.evaluate(case)

        collect()
        for b in rec.failures:
            if b not in before:
                first_seen[b] = k
        done += size
        del collect
        gc.collect()

    # shrink pass: one bucket at a time, bounded by a timer
    new = [b for b in rec.failures if not _is_known(b, known_patterns)]
    for bucket in sorted(new)[:3]:
        best = {'text': rec.failures[bucket]['case'],
                'message': rec.failures[bucket]['message']}
        sk, size = chunks[first_seen.get(bucket, 0)]

        @hypothesis.seed(sk)
        @settings(max_examples=size, phases=[Phase.generate, Phase.shrink],
                  **common)
        @given(strat)
        def shrinkit(case):
            try:
                comp.check(case)
            except Violation as v:
                if v.bucket == bucket:
                    text = rec.canon.dumps(case)
                    if len(text) <= len(best['text']):
                        best['text'] = text
                        best['message'] = v.message
                    raise

        def on_timer(signum, frame):
            raise ShrinkTimeout()

        old = signal.signal(signal.SIGVTALRM, on_timer)
        signal.setitimer(signal.ITIMER_VIRTUAL, shrink_s, 1.0)   # repeats until cancelled
        try:
            shrinkit()
        except ShrinkTimeout:
            pass
        except Violation:
            pass
        except BaseException as e:  # hypothesis wrappers (Flaky etc.)
            if isinstance(e, (CaseTimeout, HarnessError)):
                raise
        finally:
            signal.setitimer(signal.ITIMER_VIRTUAL, 0)
            signal.signal(signal.SIGVTALRM, old)
        rec.failures[bucket]['case'] = best['text']
        rec.failures[bucket]['message'] = best['message']


# ------------------------------------------------------------------------------

def load_ledger(prop_id):
    path = os.path.join(VERIF, 'known_findings.json')
    if not os.path.exists(path):
        return []
    with open(path) as f:
        data = json.load(f)
    return [e for e in data.get('findings', []) if e.get('property') == prop_id]


def write_replay(prop_id, comp_name, bucket, case_text, message):
    d = os.path.join(VERIF, 'replays')
    os.makedirs(d, exist_ok=True)
    h = hashlib.blake2b((bucket + case_text).encode(), digest_size=5).hexdigest()
    safe = re.sub(r'[^A-Za-z0-9_.-]+', '_', bucket)[:60]
    path = os.path.join(d, '%s-%s-%s-%s.json' % (prop_id, comp_name, safe, h))
    with open(path, 'w') as f:
        json.dump({'property': prop_id, 'component': comp_name,
                   'bucket': bucket, 'message': message,
                   'case': json.loads(case_text)}, f, indent=1)
    return path


def main(argv=None):
    import argparse
    ap = argparse.ArgumentParser()
    ap.add_argument('prop')
    ap.add_argument('--tier', default=os.environ.get('VERIF_TIER', 'quick'),
                    choices=['quick', 'thorough'])
    ap.add_argument('--replay')
    ap.add_argument('--only', help='run only the named component(s), comma separated')
    ap.add_argument('--no-evidence', action='store_true')
    a = ap.parse_args(argv)
    prop = a.prop.upper()
    try:
        seed = int(os.environ.get('VERIF_SEED', '1') or '1')
    except ValueError:
        seed = 1
    modname = 'pbt.props.%s' % prop.lower()
    t0 = time.time()
    try:
        setup_imports()
        mod = importlib.import_module(modname)
    except BaseException:
        traceback.print_exc()
        print('HARNESS-ERROR property=%s could not load harness' % prop)
        return 2
    if a.replay:
        return replay(mod, a.replay)
    try:
        if hasattr(mod, 'selftest'):
            mod.selftest()
    except BaseException:
        traceback.print_exc()
        print('HARNESS-ERROR property=%s selftest failed' % prop)
        return 2

    ledger = load_ledger(prop)
    known = [e for e in ledger if e.get('status') == 'known']
    known_patterns = [e['bucket'] for e in known]
    shrink_s = 20 if a.tier == 'quick' else 120
    tasks = []
    only = set(a.only.split(',')) if a.only else None
    for ci, comp in enumerate(mod.COMPONENTS):
        if only and comp.name not in only:
            continue
        ns = comp.shards[a.tier]
        for sh in range(ns):
            tasks.append((modname, ci, sh, ns, a.tier, seed, known_patterns,
                          shrink_s))
    results = run_tasks(tasks, min(NCPU, max(1, len(tasks))), mod)

    # ---- merge
    per = collections.OrderedDict()
    for comp in mod.COMPONENTS:
        per[comp.name] = {'evaluations': 0, 'nontrivial': 0, 'digests': set(),
                          'classes': collections.Counter(), 'samples': [],
                          'sub_evaluations': 0, 'exhaustive': comp.exhaustive,
                          'kind': comp.kind, 'describe': comp.describe}
    failures = {}
    herr = []
    for r in results:
        herr.extend(r['harness_errors'])
        p = per.get(r['component'])
        if p is None:
            continue
        p['evaluations'] += r['evaluations']
        p['nontrivial'] += r['nontrivial_count']
        p['digests'] |= r['digests']
        p['classes'].update(r['classes'])
        p['sub_evaluations'] += r.get('extra', {}).get('sub_evaluations', 0)
        if len(p['samples']) < 4:
            p['samples'].extend(r['samples'][:2])
        for b, f in r['failures'].items():
            key = (r['component'], b)
            cur = failures.get(key)
            if cur is None:
                failures[key] = dict(f)
            else:
                cur['count'] += f['count']
                if len(f['case']) < len(cur['case']):
                    cur['case'], cur['message'] = f['case'], f['message']

    evaluations = sum(p['evaluations'] for p in per.values())
    distinct = 0
    for comp in mod.COMPONENTS:
        p = per[comp.name]
        p['distinct_nontrivial'] = p['nontrivial'] \
            if comp.distinct_by_construction else len(p['digests'])
        distinct += p['distinct_nontrivial']

    violations = 0
    excluded_known = 0
    out_lines = []
    for (cname, bucket), f in sorted(failures.items()):
        if _is_known(bucket, known_patterns):
            excluded_known += f['count']
            continue
        violations += 1
        path = write_replay(prop, cname, bucket, f['case'], f['message'])
        out_lines.append('VIOLATION property=%s replay=%s' % (prop, path))
        out_lines.append('  component=%s bucket=%s occurrences=%d\n  %s' %
                         (cname, bucket, f['count'], f['message'][:1500]))
    for e in known:
        seen = sum(f['count'] for (c, b), f in failures.items()
                   if re.fullmatch(e['bucket'], b))
        print('KNOWN-FINDING: property=%s %s (matching cases this run: %d)' %
              (prop, e['what'], seen))

    wall = time.time() - t0
    if not a.no_evidence and not only:
        samples = []
        for name, p in per.items():
            for s in p['samples'][:3]:
                samples.append({'component': name, 'case': s})
        ev = {
            'property_id': prop, 'tier': a.tier, 'seed': seed,
            'level': mod.LEVEL,
            'coverage': {
                'evaluations': evaluations,
                'distinct_nontrivial': distinct,
                'rule': mod.RULE,
                'samples': samples,
                'exhaustive': bool(getattr(mod, 'EXHAUSTIVE', False)),
                'components': {
                    name: {'kind': p['kind'], 'what': p['describe'],
                           'evaluations': p['evaluations'],
                           'nontrivial': p['nontrivial'],
                           'distinct_nontrivial': p['distinct_nontrivial'],
                           'sub_evaluations': p['sub_evaluations'],
                           'exhaustive': p['exhaustive'],
                           'classes': dict(sorted(p['classes'].items()))}
                    for name, p in per.items()},
                'sub_evaluations': sum(p['sub_evaluations']
                                       for p in per.values()),
                'excluded_known': excluded_known,
                'harness_errors': len(herr),
                'repo': REPO,
            },
            'assumptions': list(mod.ASSUMPTIONS),
            'wall_s': round(wall, 2),
            'violations': violations,
        }
        os.makedirs(os.path.join(VERIF, 'evidence'), exist_ok=True)
        tmp = os.path.join(VERIF, 'evidence', '%s.json.tmp' % prop)
        with open(tmp, 'w') as f:
            json.dump(ev, f, indent=1, sort_keys=False)
            f.write('\n')
        os.replace(tmp, os.path.join(VERIF, 'evidence', '%s.json' % prop))

    if herr:
        for h in herr[:5]:
            sys.stderr.write(h + '\n')
        if not violations:
            print('HARNESS-ERROR property=%s %d harness error(s); inconclusive'
                  % (prop, len(herr)))
            return 2
    for line in out_lines:
        print(line)
    print('%s tier=%s seed=%d evaluations=%d distinct_nontrivial=%d '
          'violations=%d known_excluded=%d wall=%.1fs' %
          (prop, a.tier, seed, evaluations, distinct, violations,
           excluded_known, wall))
    return 1 if violations else 0


def replay(mod, path):
    from pbt import canon
    with open(path) as f:
        rp = json.load(f)
    comp = [c for c in mod.COMPONENTS if c.name == rp['component']]
    if not comp:
        print('HARNESS-ERROR unknown component %r' % rp['component'])
        return 2
    for debug in (False, True):       # both logging configurations (see set_logging)
        set_logging(debug)
        case = canon.from_json(rp['case'])
        try:
            comp[0].check(case)
        except Violation as v:
            print('VIOLATION property=%s replay=%s' % (mod.PROPERTY_ID, path))
            print('  component=%s bucket=%s logging=%s\n  %s' % (
                comp[0].name, v.bucket, 'debug' if debug else 'off',
                v.message[:2000]))
            return 1
        except Exception as e:
            site = lib_site(e)
            if site == 'outside-pamqp' or isinstance(e, (MemoryError, RecursionError)):
                raise
            print('VIOLATION property=%s replay=%s' % (mod.PROPERTY_ID, path))
            print('  component=%s bucket=raises:%s@%s logging=%s\n  %r' % (
                comp[0].name, type(e).__name__, site, 'debug' if debug else 'off', e))
            return 1
    print('replay %s: oracle holds on this case' % path)
    return 0


if __name__ == '__main__':
    sys.exit(main())
