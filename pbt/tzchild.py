"""Child process for C15: started with TZ already in the environment (so import-time capture
of the local zone is covered), it additionally switches zones in-process with time.tzset()
between cases (per-call use of local time).

usage: python -m pbt.tzchild <seed> <tier> <n_examples>      (TZ from the environment)
       python -m pbt.tzchild --case <json>                   (evaluate one case)
prints one JSON object on stdout.
"""
import datetime
import hashlib
import json
import os
import sys
import time


def main():
    boot_tz = os.environ.get('TZ', '')
    from pbt import runner
    runner.setup_imports()
    from pbt import canon, strategies as S
    from pamqp import commands, decode, encode, frame, header

    ZONES = ['UTC0', 'EST5EDT,M3.2.0,M11.1.0', 'CET-1CEST,M3.5.0,M10.5.0/3',
             '<+0530>-5:30', '<+14>-14', '<-12>12', 'AEST-10AEDT,M10.1.0,M4.1.0/3',
             'NZST-12NZDT,M9.5.0,M4.1.0/3', '<-03>3']

    def set_zone(z):
        os.environ['TZ'] = z
        time.tzset()

    def make_input(sec, micro, kind, off):
        if kind == 'struct_time':
            return S._struct_time(sec)
        if kind == 'st_gmtoff':      # 11-field struct_time carrying an explicit tm_gmtoff
            return S._struct_time_gmtoff(sec, off * 60)
        if kind == 'st_local':       # what time.localtime() returns in the active zone
            return time.localtime(sec)
        return S._dt(sec, micro, kind, off)

    class Fail(Exception):
        def __init__(self, bucket, msg):
            self.bucket, self.msg = bucket, msg

    def oracle(case):
        if 'pair' in case:
            return pair_oracle(case)
        sec, micro, kind, off = case['sec'], case['micro'], case['kind'], case['off']
        v = make_input(sec, micro, kind, off)
        if kind == 'st_local':
            # the fields are local wall time; 'read as UTC' they denote another instant
            sec = canon.epoch_seconds(v)
            if not 0 <= sec <= 2**32 - 1:
                return None
        want = sec.to_bytes(8, 'big')
        try:
            got = encode.timestamp(v)
        except Exception as e:
            raise Fail('encode-raises:' + type(e).__name__,
                       'encode.timestamp(%r) raised %r' % (v, e))
        if got != want:
            raise Fail('encode:' + kind, 'encode.timestamp(%r) == %s, expected epoch '
                       'second %d (off by %d s)' %
                       (v, got.hex(), sec, int.from_bytes(got, 'big') - sec))
        n, out = decode.timestamp(want)
        fields = canon.utc_fields(sec)
        if type(out) is not datetime.datetime or out.tzinfo is None or \
                out.utcoffset() != datetime.timedelta(0):
            raise Fail('decode-not-utc-aware', 'decode.timestamp(%d) == %r' %
                       (sec, out))
        if (out.year, out.month, out.day, out.hour, out.minute, out.second,
                out.microsecond) != fields + (0,) or n != 8:
            raise Fail('decode-fields', 'decode.timestamp(%d) == %r, expected UTC '
                       'fields %r' % (sec, out, fields))
        # through a content header and a field table
        p = commands.Basic.Properties(timestamp=v, headers={'t': v})
        data = frame.marshal(header.ContentHeader(0, 1, p), 1)
        at = data.find(want)
        if data.count(want) < 2:
            raise Fail('frame-encode:' + kind, 'content header with timestamp %r '
                       'does not carry epoch second %d twice' % (v, sec))
        back = frame.unmarshal(data)[2].properties
        for label, d in (('property', back.timestamp), ('table', back.headers['t'])):
            if d.utcoffset() != datetime.timedelta(0) or \
                    (d.year, d.month, d.day, d.hour, d.minute, d.second) != fields:
                raise Fail('frame-decode:' + label, '%s timestamp decoded as %r, '
                           'expected UTC fields %r' % (label, d, fields))
        wire_oracle(case['sec'], micro // 1000)
        return got, out

    def wire_oracle(sec, ms):
        """what a peer may send: the instant as whole seconds, and - the decoder reads
        anything above 0xFFFFFFFF as milliseconds - as milliseconds (also a far-future
        one); the decoded value must denote that instant in every zone"""
        for v in (sec, sec * 1000 + ms, (sec * 50 + 7) * 1000 + ms):
            is_ms = v > 0xFFFFFFFF
            want_us = v * 1000 if is_ms else v * 1000000
            raw = v.to_bytes(8, 'big')
            tab = decode.field_table(b'\x00\x00\x00\x0b\x01tT' + raw)[1]
            for label, (n, out) in (('decode.timestamp', decode.timestamp(raw)),
                                    ('by_type', decode.by_type(raw, 'timestamp')),
                                    ('table value', (8, tab['t']))):
                if type(out) is not datetime.datetime or out.tzinfo is None or \
                        out.utcoffset() != datetime.timedelta(0) or n != 8:
                    raise Fail('decode-not-utc-aware', '%s of %d == %r' %
                               (label, v, out))
                got_us = canon.epoch_seconds(out) * 1000000 + out.microsecond
                if abs(got_us - want_us) > (500 if is_ms else 0):
                    raise Fail('decode-wire:' + ('ms' if is_ms else 's'),
                               '%s of the wire value %d (%s) == %r, which is %d us away '
                               'from the instant sent' %
                               (label, v, 'milliseconds' if is_ms else 'seconds', out,
                                got_us - want_us))

    def pair_oracle(case):
        """two aware datetimes with the same wall time in the repeated DST hour (equal by
        ==, one hour apart) encoded one after the other, bare and inside a table"""
        year, minute, order = case['pair']
        a, b = S.fold_pair(year, minute, case.get('micro', 0))
        seq = [a, b] if order == 0 else [b, a]
        got = None
        for v in seq + seq:
            want = canon.epoch_seconds(v).to_bytes(8, 'big')
            got = encode.timestamp(v)
            tab = encode.field_table({'t': v})
            if got != want or want not in tab:
                raise Fail('fold-pair', 'encode.timestamp(%r fold=%d) == %s after its '
                           'equal-comparing twin, expected epoch second %d' %
                           (v, v.fold, got.hex(), canon.epoch_seconds(v)))
        return got, decode.timestamp(got)[1]

    def local_offset(sec):
        return time.localtime(sec).tm_gmtoff

    def guarded(case):
        """an exception raised inside the library for an input of the domain is a violation
        (the property demands an encoding / a decoded value), not a harness error"""
        try:
            return oracle(case)
        except Fail:
            raise
        except Exception as e:
            site = runner.lib_site(e)
            if site == 'outside-pamqp':
                raise
            raise Fail('raises:%s@%s' % (type(e).__name__, site),
                       'case %r: the library raised %r' % (case, e))

    if sys.argv[1] == '--case':
        case = json.loads(sys.argv[2])
        set_zone(case['tz'])
        try:
            guarded(case)
            print(json.dumps({'ok': True}))
        except Fail as f:
            print(json.dumps({'ok': False, 'bucket': f.bucket, 'msg': f.msg}))
        return

    seed, tier, n_examples = int(sys.argv[1]), sys.argv[2], int(sys.argv[3])
    res = {'tz': boot_tz, 'evaluations': 0, 'nontrivial': 0, 'dst_cases': 0,
           'failures': {}, 'samples': [], 'digests': [], 'zone_switches': 0}
    nt_digests = set()

    def record(case):
        res['evaluations'] += 1
        if res['evaluations'] % 64 == 0:
            runner.set_logging(res['evaluations'] % 128 == 0)
        off_now = local_offset(case['sec']) if 'sec' in case else -18000
        if off_now != 0:
            res['nontrivial'] += 1
            nt_digests.add(hashlib.blake2b(
                json.dumps(case, sort_keys=True).encode(), digest_size=8).hexdigest())
            if len(res['samples']) < 3:
                res['samples'].append(dict(case, local_utc_offset=off_now))
        try:
            return guarded(case)
        except Fail as f:
            cur = res['failures'].get(f.bucket)
            if cur is None or len(json.dumps(case)) < len(json.dumps(cur['case'])):
                res['failures'][f.bucket] = {
                    'case': case, 'msg': f.msg,
                    'count': (cur or {'count': 0})['count'] + 1}
            else:
                cur['count'] += 1
            return None

    # ---- 1. DST transitions of the boot zone (+-), found by scanning local offsets
    transitions = []
    prev = local_offset(0)
    step = 86400
    t = 0
    while t < 2**32 and len(transitions) < 300:
        cur = local_offset(min(t + step, 2**32 - 1))
        if cur != prev:
            lo, hi = t, min(t + step, 2**32 - 1)
            while hi - lo > 1:
                mid = (lo + hi) // 2
                if local_offset(mid) == prev:
                    lo = mid
                else:
                    hi = mid
            transitions.append(hi)
            prev = cur
        t += step
    kinds = ['naive', 'utc', 'offset', 'struct_time', 'nulltz', 'ruletz', 'st_gmtoff',
             'offset_us', 'st_local']
    for i, tr in enumerate(transitions):
        for d in (-3601, -3600, -1, 0, 1, 3599, 3600, 3601):
            s = tr + d
            if 0 <= s <= 2**32 - 1:
                res['dst_cases'] += 1
                record({'tz': boot_tz, 'sec': s, 'micro': (i * 7919) % 1000000,
                        'kind': kinds[(i + d) % 9], 'off': 330})
    # ---- 1a. every offset regime of the zone's history (the stretch between two
    # transitions), however short, with every input kind: random instants weight regimes by
    # their duration and would hardly ever land in a zone's first few years
    bounds = [0] + transitions + [2**32 - 1]
    res['regimes'] = 0
    for i in range(len(bounds) - 1):
        lo, hi = bounds[i], bounds[i + 1] - 1
        if hi <= lo:
            continue
        res['regimes'] += 1
        for j, s in enumerate((lo, lo + (hi - lo) // 3, (lo + hi) // 2, hi)):
            for k, kind in enumerate(kinds):
                res['dst_cases'] += 1
                record({'tz': boot_tz, 'sec': s, 'micro': (i * 104729 + j) % 1000000,
                        'kind': kind, 'off': (i * 37 + k) % 2879 - 1439})
    # ---- 1b. fold pairs: every year 1971..2105, both orders
    for year in range(1971, 2106):
        for order in (0, 1):
            record({'tz': boot_tz, 'pair': [year, (year * 7) % 60, order],
                    'micro': (year * 991) % 1000000})
    # ---- 2. fixed seed-derived instant list; digest must agree across all children
    h = hashlib.blake2b(digest_size=16)
    for i in range(2000 if tier == 'quick' else 20000):
        raw = hashlib.blake2b(b'%d/%d' % (seed, i), digest_size=8).digest()
        sec = int.from_bytes(raw[:5], 'big') % 2**32
        case = {'tz': boot_tz, 'sec': sec,
                'micro': int.from_bytes(raw[5:], 'big') % 1000000,
                'kind': kinds[i % 8], 'off': (i * 37) % 2879 - 1439}
        r = record(case)
        if r is not None:
            h.update(r[0])
            h.update(repr((r[1].year, r[1].month, r[1].day, r[1].hour, r[1].minute,
                           r[1].second, r[1].utcoffset().total_seconds())).encode())
        else:
            h.update(b'FAIL')
    res['digest'] = h.hexdigest()
    # ---- 3. Hypothesis-generated instants, switching zones in-process
    import hypothesis
    from hypothesis import HealthCheck, Phase, given, settings, strategies as st
    state = {'i': 0}

    @hypothesis.seed(seed * 1000 + len(boot_tz))
    @settings(max_examples=n_examples, database=None, deadline=None,
              phases=[Phase.generate], suppress_health_check=list(HealthCheck))
    @given(S.epoch_seconds_st(), st.integers(0, 999999), st.sampled_from(kinds),
           st.integers(-1439, 1439), st.sampled_from(ZONES))
    def run(sec, micro, kind, off, zone):
        state['i'] += 1
        if state['i'] % 5 == 0:
            set_zone(zone)
            res['zone_switches'] += 1
        record({'tz': os.environ['TZ'], 'sec': sec, 'micro': micro, 'kind': kind,
                'off': off})
    run()
    res['distinct_nontrivial'] = len(nt_digests)
    res['transitions_found'] = len(transitions)
    print(json.dumps(res))


if __name__ == '__main__':
    main()
