"""The library's other public entry points to the same codec: the frame objects' own
marshal() / unmarshal() methods and the by_type / mapping-table dispatchers.  Each must agree
with the primary path (frame.marshal / frame.unmarshal, the named encoder / decoder), which the
owning check compares with its independent oracle."""
from pbt import canon
from pbt.lib import (body, commands, decode, dump_frame, encode, frame_kind, header,
                     heartbeat)
from pbt.runner import Violation


def _differs(a, b):
    return canon.canon(a) != canon.canon(b)


def frame_entries(obj, ch, data, decoded):
    """`data` = frame.marshal(obj, ch), `decoded` = frame.unmarshal(data)[2]"""
    k = frame_kind(obj)
    payload = data[7:-1]
    if k == 'method':
        own = obj.marshal()
        if type(own) is not bytes or payload[4:] != own:
            raise Violation('entry:method-marshal', '%s().marshal() gives %d bytes that '
                            'differ from the argument bytes inside frame.marshal()\'s frame'
                            % (type(obj).__qualname__, len(own)))
        if payload[:4] != type(obj).index.to_bytes(4, 'big'):
            raise Violation('entry:index', 'class attribute index %r is not the class / '
                            'method id in the frame' % (type(obj).index,))
        new = type(obj)()
        new.unmarshal(own)
    elif k == 'header':
        own = obj.marshal()
        if type(own) is not bytes or payload != own:
            raise Violation('entry:header-marshal', 'ContentHeader.marshal() differs '
                            'from the payload of frame.marshal()\'s frame')
        pown = obj.properties.marshal()
        if own[12:] != pown:
            raise Violation('entry:properties-marshal', 'Basic.Properties.marshal() '
                            'differs from the property section of the content header')
        new = header.ContentHeader()
        new.unmarshal(own)
        # the property list on its own: flag word(s) first, then the values
        flags, pos, shift = 0, 0, 0
        words = []
        while True:
            w = int.from_bytes(pown[pos:pos + 2], 'big')
            words.append(w)
            pos += 2
            if not w & 1:
                break
        for i, w in enumerate(words):
            flags |= w << (16 * i)
        p = commands.Basic.Properties()
        p.unmarshal(flags, pown[pos:])
        for name in p.__slots__:
            if _differs(getattr(p, name), getattr(decoded.properties, name)):
                raise Violation('entry:properties-unmarshal', 'Basic.Properties()'
                                '.unmarshal(flags, data) gives %s == %r, frame.unmarshal '
                                '%r' % (name, getattr(p, name),
                                        getattr(decoded.properties, name)))
    elif k == 'body':
        own = obj.marshal()
        if type(own) is not bytes or own != payload:
            raise Violation('entry:body-marshal', 'ContentBody.marshal() differs from '
                            'the payload of frame.marshal()\'s frame')
        new = body.ContentBody(b'')
        new.unmarshal(own)
    elif k == 'heartbeat':
        if obj.marshal() != data:
            raise Violation('entry:heartbeat-marshal', 'Heartbeat.marshal() == %r, '
                            'frame.marshal() == %r' % (obj.marshal(), data))
        return
    else:
        if obj.marshal() != data:
            raise Violation('entry:protocol-marshal', 'ProtocolHeader.marshal() == %r, '
                            'frame.marshal() == %r' % (obj.marshal(), data))
        new = header.ProtocolHeader()
        n = new.unmarshal(data)
        if n != 8:
            raise Violation('entry:protocol-unmarshal', 'ProtocolHeader.unmarshal '
                            'reports %r bytes' % (n,))
    if dump_frame(new) != dump_frame(decoded):
        raise Violation('entry:%s-unmarshal' % k, 'a default %s object filled by its own '
                        'unmarshal(payload) is %s; frame.unmarshal gives %s' %
                        (type(obj).__qualname__, canon.short(dump_frame(new), 200),
                         canon.short(dump_frame(decoded), 200)))


# name used with by_type -> named function (as documented in the two METHODS tables)
ENC_BY_TYPE = {'bytearray': 'byte_array', 'double': 'double',
               'field_array': 'field_array', 'long': 'long_uint',
               'longlong': 'long_long_int', 'longstr': 'long_string', 'octet': 'octet',
               'short': 'short_uint', 'shortstr': 'short_string', 'table': 'field_table',
               'timestamp': 'timestamp'}
DEC_BY_TYPE = {'array': 'field_array', 'boolean': 'boolean', 'byte_array': 'byte_array',
               'decimal': 'decimal', 'double': 'double', 'float': 'floating_point',
               'long': 'long_uint', 'longlong': 'long_long_int', 'longstr': 'long_str',
               'octet': 'octet', 'short': 'short_uint', 'shortstr': 'short_str',
               'table': 'field_table', 'timestamp': 'timestamp', 'void': 'void'}
ENC_ALIASES = {}
for _alias, _fn in ENC_BY_TYPE.items():
    ENC_ALIASES.setdefault(_fn, []).append(_alias)
DEC_ALIASES = {}
for _alias, _fn in DEC_BY_TYPE.items():
    DEC_ALIASES.setdefault(_fn, []).append(_alias)


def encode_entries(fn_name, value, got):
    """`got` = getattr(encode, fn_name)(value) (already compared with the reference)"""
    import copy
    for alias in ENC_ALIASES.get(fn_name, ()):
        for label, f in (('by_type', lambda v: encode.by_type(v, alias)),
                         ('METHODS', lambda v: encode.METHODS[alias](v))):
            other = f(copy.deepcopy(value))
            if other != got or type(other) is not type(got):
                raise Violation('entry:encode-%s:%s' % (label, alias),
                                'encode.%s(%s, %r) gives %r, encode.%s gives %r' %
                                (label, canon.short(value, 60), alias, other, fn_name,
                                 got))


def decode_entries(fn_name, data, got):
    """`got` = getattr(decode, fn_name)(data) = (consumed, value)"""
    for alias in DEC_ALIASES.get(fn_name, ()):
        for label, f in (('by_type', lambda b: decode.by_type(b, alias)),
                         ('by_type-offset', lambda b: decode.by_type(b, alias, 3)),
                         ('METHODS', lambda b: decode.METHODS[alias](b))):
            other = f(data)
            if not (isinstance(other, tuple) and len(other) == 2 and
                    other[0] == got[0] and not _differs(other[1], got[1])):
                raise Violation('entry:decode-%s:%s' % (label, alias),
                                'decode.%s(.., %r) gives %s, decode.%s gives %s' %
                                (label, alias, canon.short(other, 100), fn_name,
                                 canon.short(got, 100)))


TAG_FN = {b't': 'boolean', b'b': 'short_short_int', b'B': 'short_short_uint',
          b's': 'short_int', b'u': 'short_uint', b'I': 'long_int', b'i': 'long_uint',
          b'l': 'long_long_int', b'L': 'long_long_int', b'f': 'floating_point',
          b'd': 'double', b'D': 'decimal', b'S': 'long_str', b'A': 'field_array',
          b'T': 'timestamp', b'F': 'field_table', b'V': 'void', b'\x00': 'void',
          b'x': 'byte_array'}


def table_mapping_entry(enc, got):
    """`enc` = one encoded table value (tag + bytes), `got` = decode.embedded_value(enc):
    the same bytes through TABLE_MAPPING, the named decoder, by_type and METHODS"""
    tag = enc[0:1]
    fn = decode.TABLE_MAPPING.get(tag)
    if fn is None:
        raise Violation('entry:table-mapping', 'TABLE_MAPPING has no entry for tag %r' %
                        tag)
    name = TAG_FN[tag]
    for label, f in (('TABLE_MAPPING[%r]' % tag, fn),
                     ('decode.' + name, getattr(decode, name))):
        other = f(enc[1:])
        if other[0] + 1 != got[0] or _differs(other[1], got[1]):
            raise Violation('entry:table-mapping', '%s gives %s, embedded_value gives %s'
                            % (label, canon.short(other, 100), canon.short(got, 100)))
    decode_entries(name, enc[1:], (got[0] - 1, got[1]))
