"""Coverage-guided fuzzing component (atheris / libFuzzer under python3-vt) for the
decoder-side properties.  The semantic oracles live inside the target
(fuzz/decode_target.py); a violation is saved by libFuzzer as crash-* and reported here
with the input as a replayable {'raw': bytes} case."""
import os
import re
import shutil
import subprocess
import tempfile

from pbt import decode_domain as D
from pbt.runner import REPO, VERIF

PY_VT = os.environ.get('VERIF_PYTHON_VT', '/opt/veriftools/pyvenv/bin/python')


def make_bulk(prop, oracles, runs):
    def bulk(tier, shard, nshards, rec):
        if not os.path.exists(PY_VT):
            rec.harness_errors.append('python3-vt (%s) not found: atheris campaign '
                                      'cannot run' % PY_VT)
            return
        seed = int(os.environ.get('VERIF_SEED', '1') or '1') * 1000 + shard + 1
        tmp = tempfile.mkdtemp(prefix='pamqp-fuzz-%s-' % prop)
        try:
            corpus = os.path.join(tmp, 'corpus')
            os.makedirs(corpus)
            seeded = shard % 4 != 0        # every 4th campaign starts from nothing
            if seeded:
                for i, (name, data, marks) in enumerate(D.seeds()):
                    with open(os.path.join(corpus, 'seed%03d' % i), 'wb') as f:
                        f.write(data)
            max_len = 131080 if (tier == 'thorough' and shard % 4 == 3) else 4096
            env = dict(os.environ, PAMQP_REPO=REPO, FUZZ_ORACLES=oracles,
                       PYTHONPATH=VERIF + os.pathsep + REPO, PYTHONHASHSEED='0',
                       PYTHONDONTWRITEBYTECODE='1')
            p = subprocess.run(
                [PY_VT, '-B', os.path.join(VERIF, 'fuzz', 'decode_target.py'),
                 '-runs=%d' % runs[tier], '-seed=%d' % seed, '-max_len=%d' % max_len,
                 '-timeout=120', '-rss_limit_mb=3000', '-print_final_stats=1',
                 '-artifact_prefix=' + tmp + os.sep, corpus],
                cwd=VERIF, env=env, capture_output=True, text=True,
                timeout=3 * 3600)
            out = p.stdout + p.stderr
            m = re.search(r'Done (\d+) runs', out) or \
                re.search(r'stat::number_of_executed_units:\s*(\d+)', out)
            done = int(m.group(1)) if m else 0
            reached = 0
            for fn in os.listdir(corpus):
                with open(os.path.join(corpus, fn), 'rb') as f:
                    if D.envelope_ok(f.read()):
                        reached += 1
            rec.count(done, reached, 'atheris-%s' % ('seeded' if seeded else 'empty'))
            rec.classes['corpus-size'] += len(os.listdir(corpus))
            crashes = [f for f in os.listdir(tmp)
                       if f.startswith(('crash-', 'timeout-', 'oom-'))]
            for c in crashes:
                with open(os.path.join(tmp, c), 'rb') as f:
                    data = f.read()
                mm = re.search(r'ORACLE (C\d+) (\S+?):? (.*)', out)
                if c.startswith('crash-') and mm:
                    if mm.group(1) == prop:
                        rec.fail('fuzz:' + mm.group(2).rstrip(':'), {'raw': data},
                                 'atheris: ' + mm.group(0)[:400])
                    else:
                        rec.classes['other-property-crash:' + mm.group(1)] += 1
                elif c.startswith('crash-'):
                    rec.harness_errors.append('fuzz target crashed without an oracle '
                                              'message:\n' + out[-1500:])
                elif prop == 'C08':
                    rec.fail('fuzz:' + c.split('-')[0], {'raw': data},
                             'libFuzzer reported %s on this input' % c.split('-')[0])
            if not done and not crashes:
                rec.harness_errors.append('atheris produced no run count:\n' +
                                          out[-1500:])
            if os.listdir(corpus):
                fn = sorted(os.listdir(corpus))[-1]
                with open(os.path.join(corpus, fn), 'rb') as f:
                    rec.sample({'raw': f.read()[:200]})
        finally:
            shutil.rmtree(tmp, ignore_errors=True)
    return bulk
