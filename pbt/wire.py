"""Decoder-side generation: grammar-valid *wire* encodings as tagged trees.

A wire value is a list ``[tag, payload...]`` with an explicit type tag and width, so
forms the library's own encoder never emits (all 19 tags, non-minimal widths, unsorted
keys, non-UTF-8 long strings, extra flag words ...) are produced by construction.
``render_*`` turns a tree into bytes with the reference primitives and records the
offsets of every length / tag / flag / index field (``marks``) for the fault model;
``expect_*`` derives the Python value a correct decoder must return, independently of
the reference *decoder* (the two are compared as a harness self-check).

Never imports pamqp.
"""
import decimal

from hypothesis import strategies as st

from pbt import canon, harvest, refcodec, spec_table, strategies as S
from pbt.refcodec import MsTimestamp, s as sint, u as uint

MAXDT = refcodec.MAX_DATETIME_SECONDS
ALL_TAGS = ['t', 'b', 'B', 's', 'u', 'I', 'i', 'l', 'L', 'f', 'd', 'D', 'S', 'A',
            'T', 'F', 'V', '\x00', 'x']
NEVER_EMITTED = {'B', 'd', 'L', '\x00'}

# ------------------------------------------------------------------ value strategies


def _ints(width, signed):
    if signed:
        lo, hi = -(1 << (8 * width - 1)), (1 << (8 * width - 1)) - 1
    else:
        lo, hi = 0, (1 << (8 * width)) - 1
    return st.one_of(st.integers(lo, hi), st.sampled_from([lo, hi, 0, 1, hi // 2]),
                     st.integers(max(lo, -3), min(hi, 130)), _by_magnitude(lo, hi))


def _by_magnitude(lo, hi):
    """uniform in the bit length first, then in the value: every order of magnitude of a
    wide field is visited, not only its two ends"""
    def draw(bits, negative, frac):
        top = (1 << bits) - 1
        bottom = (1 << (bits - 1)) if bits else 0
        v = bottom + (top - bottom) * frac // 1000000
        v = -v if negative else v
        return min(hi, max(lo, v))
    return st.builds(draw, st.integers(0, max(hi, -lo).bit_length()),
                     st.booleans() if lo < 0 else st.just(False),
                     st.integers(0, 1000000))


def timestamps():
    return st.one_of(
        st.integers(0, 2**32 - 1),
        st.sampled_from([0, 1, 2**31, 2**32 - 1, 2**32, 2**32 + 1,
                         1700000000000, MAXDT * 1000, MAXDT * 1000 + 999,
                         (MAXDT + 1) * 1000, (MAXDT + 1) * 1000 + 1,
                         2**63, 2**64 - 1]),
        st.integers(2**32, 2**33),
        st.integers(2**32, MAXDT * 1000),
        st.integers(MAXDT * 1000 - 5000, MAXDT * 1000 + 5000),
        st.integers(MAXDT * 1000, 2**64 - 1),
        _by_magnitude(0, 2**64 - 1),
        # every decimal order of magnitude (a unit guess - s / ms / us / ns - changes there)
        st.builds(lambda e, m, d: min(2**64 - 1, (10 ** e) * m // 1000 + d),
                  st.integers(3, 19), st.integers(1000, 9999), st.integers(-1, 1)),
    )


def raw_strings():
    """long-string payloads: mostly UTF-8, sometimes not"""
    return st.one_of(
        st.sampled_from([s.encode('utf-8', 'surrogatepass')
                         for s in harvest.literals()[0]] + harvest.literals()[1] +
                        [b'\xef\xbb\xbf', b'\xef\xbb\xbfhi', b'\xff\xfeh\x00',
                         b'\xfe\xff\x00h', b'\xef\xbb\xbf\xef\xbb\xbf']),
        S.texts(30).map(lambda t: t.encode('utf-8')),
        S.texts(30).map(lambda t: t.encode('utf-8')),
        st.binary(max_size=30),
        st.sampled_from([b'\xff', b'\xc3', b'\xe2\x82', b'abc\x80', b'\xed\xa0\x80',
                         b'\xf8\x88\x80\x80\x80', b'']),
    )


def wire_leaves():
    return st.one_of(
        st.tuples(st.just('t'), st.one_of(st.sampled_from([0, 1, 2, 255]),
                                          st.integers(0, 255))),
        st.tuples(st.just('b'), _ints(1, True)),
        st.tuples(st.just('B'), _ints(1, False)),
        st.tuples(st.just('s'), _ints(2, True)),
        st.tuples(st.just('u'), _ints(2, False)),
        st.tuples(st.just('I'), _ints(4, True)),
        st.tuples(st.just('i'), _ints(4, False)),
        st.tuples(st.just('l'), _ints(8, True)),
        st.tuples(st.just('L'), st.one_of(st.integers(0, 2**63 - 1),
                                          st.sampled_from([0, 2**63 - 1]))),
        st.tuples(st.just('f'), st.floats(width=32, allow_nan=False) |
                  st.just(float('nan'))),
        st.tuples(st.just('d'), st.floats(allow_nan=False) | st.just(float('nan'))),
        st.tuples(st.just('D'), st.one_of(st.integers(0, 255), st.integers(0, 10)),
                  _ints(4, True)),
        st.tuples(st.just('S'), raw_strings()),
        st.tuples(st.just('T'), timestamps()),
        st.tuples(st.just('V')),
        st.tuples(st.just('\x00')),
        st.tuples(st.just('x'), st.binary(max_size=20)),
    ).map(list)


# peer-controlled names that are hostile to string templating / logging / formatting
HOSTILE_KEYS = ['{}', '{0}', '{1}', '{x}', '{!r}', '{0.real}', '{0[0]}', '{:d}', 'a{}b',
                '{', '}', '{{}}', '%s', '%d', '%(a)s', '%', '%%', '${x}', '$x', '\\',
                '\\x', '\\N{x}', '\n', '\x00', "'", '"', '%s%s%s', '{}{}', '\ud7ff',
                '__class__', '{self}', '{key}', '{error}', '{value}',
                # long runs of one character class closed by a foreign character: the
                # classic shape that makes a backtracking regular expression explode
                # printf-style width / precision bombs (a logging call that pastes a peer's
                # name into its format string would try to build gigabytes)
                '%2000000000d', '%.2000000000f', '%-1999999999s', '%*d', '%2000000000%',
                '%300000000d', '%50000000s', '%.80000000f', '%0400000000x',
                'a' * 30 + '!', 'a' * 48 + ' ', 'ab' * 20 + ':', 'a.' * 24 + '!',
                'a-' * 24 + '--', '0' * 40 + 'x', ' ' * 40 + '\t', 'A' * 64 + '\x00',
                'x-' + 'k' * 40 + ':v', '_' * 36 + '-', 'a' * 26 + '\u00e9']


def homogeneous_arrays():
    """arrays of 0..40 items that all carry the same type tag, over the tag's full range"""
    def arr(tag, n):
        if tag in 'bsIl':
            w = {'b': 1, 's': 2, 'I': 4, 'l': 8}[tag]
            item = _ints(w, True)
        elif tag in 'Bui':
            item = _ints({'B': 1, 'u': 2, 'i': 4}[tag], False)
        elif tag == 'L':
            item = st.integers(0, 2 ** 63 - 1)
        elif tag == 't':
            item = st.integers(0, 255)
        elif tag == 'f':
            item = st.floats(width=32, allow_nan=False)
        elif tag == 'd':
            item = st.floats(allow_nan=False)
        elif tag == 'T':
            item = timestamps().filter(lambda x: x // 1000 <= MAXDT or x <= 0xFFFFFFFF)
        elif tag == 'D':
            return st.lists(st.tuples(st.just('D'), st.integers(0, 255), _ints(4, True)
                                      ).map(list), min_size=n, max_size=n)
        else:
            return st.just([[tag]] * n)
        return st.lists(st.tuples(st.just(tag), item).map(list), min_size=n,
                        max_size=n)
    return st.tuples(st.sampled_from('bBsuIilLtfdTDV'),
                     st.one_of(st.integers(0, 12), st.sampled_from([7, 8, 9, 16, 40]))
                     ).flatmap(lambda tn: arr(*tn)).map(lambda xs: ['A', xs])


def wire_keys():
    return st.one_of(S.table_keys(), S.shortstrs(255), st.just(''),
                     st.sampled_from(HOSTILE_KEYS),
                     st.sampled_from(harvest.key_like() or ['k']),
                     st.text(st.characters(min_codepoint=0x61, max_codepoint=0x7a),
                             min_size=1, max_size=4))


def wire_values(max_leaves=10):
    return st.recursive(
        st.one_of(wire_leaves(), wire_leaves(), wire_leaves(), homogeneous_arrays()),
        lambda ch: st.one_of(
            st.lists(ch, max_size=5).map(lambda xs: ['A', xs]),
            st.lists(st.tuples(wire_keys(), ch).map(list), max_size=5,
                     unique_by=lambda kv: kv[0]).map(lambda kv: ['F', kv])),
        max_leaves=max_leaves)


def wire_tables(max_leaves=10):
    """list of [key, value] (wire order, duplicates possible)"""
    return st.lists(st.tuples(wire_keys(), wire_values(max_leaves)).map(list),
                    max_size=6, unique_by=lambda kv: kv[0])


def deep_wire_values(max_depth=64):
    def build(layers, core):
        v = core
        for kind, key in reversed(layers):
            v = ['A', [v]] if kind == 'A' else ['F', [[key, v]]]
        return v
    layer = st.tuples(st.sampled_from('AF'), st.sampled_from(['', 'k', 'key']))
    # draw the depth explicitly: st.lists(max_size=N) alone almost never gets long
    layers = st.integers(1, max_depth).flatmap(
        lambda d: st.lists(layer, min_size=d, max_size=d))
    return st.builds(build, layers, wire_leaves())


def chain(depth, pattern, leaf, key='k'):
    """deterministic chain: pattern 'A', 'F' or 'AF' (alternating), `depth` containers"""
    v = leaf
    for i in range(depth):
        kind = pattern[(depth - 1 - i) % len(pattern)]
        v = ['A', [v]] if kind == 'A' else ['F', [[key, v]]]
    return v


# ------------------------------------------------------------------ rendering

class Out:
    def __init__(self):
        self.buf = bytearray()
        self.marks = []

    def mark(self, kind, width, of=None):
        m = {'off': len(self.buf), 'w': width, 'kind': kind}
        if of:
            m['of'] = of          # which construct the length belongs to (A / F / S)
        self.marks.append(m)

    def add(self, b):
        self.buf += b


def render_value(v, out):
    tag = v[0]
    out.mark('tag', 1)
    out.add(tag.encode('latin-1'))
    if tag == 't':
        out.add(uint(v[1], 1))
    elif tag in 'bsIlL':
        out.add(sint(v[1], {'b': 1, 's': 2, 'I': 4, 'l': 8, 'L': 8}[tag]))
    elif tag in 'Bui':
        out.add(uint(v[1], {'B': 1, 'u': 2, 'i': 4}[tag]))
    elif tag == 'f':
        out.add(refcodec.f32_bits(v[1]))
    elif tag == 'd':
        out.add(refcodec.f64_bits(v[1]))
    elif tag == 'D':
        out.mark('scale', 1)
        out.add(uint(v[1], 1))
        out.add(sint(v[2], 4))
    elif tag in 'Sx':
        out.mark('len32', 4, 'S')
        out.add(uint(len(v[1]), 4))
        out.add(v[1])
    elif tag == 'T':
        out.mark('timestamp', 8)
        out.add(uint(v[1], 8))
    elif tag == 'A':
        render_array(v[1], out)
    elif tag == 'F':
        render_table(v[1], out)
    elif tag in ('V', '\x00'):
        pass
    else:
        raise AssertionError(tag)


def render_array(items, out):
    out.mark('len32', 4, 'A')
    at = len(out.buf)
    out.add(b'\x00\x00\x00\x00')
    for x in items:
        render_value(x, out)
    out.buf[at:at + 4] = uint(len(out.buf) - at - 4, 4)


def render_table(pairs, out):
    out.mark('len32', 4, 'F')
    at = len(out.buf)
    out.add(b'\x00\x00\x00\x00')
    for k, x in pairs:
        raw = k.encode('utf-8')
        out.mark('len8', 1)
        out.add(uint(len(raw), 1))
        out.add(raw)
        render_value(x, out)
    out.buf[at:at + 4] = uint(len(out.buf) - at - 4, 4)


def expect_value(v):
    tag = v[0]
    if tag == 't':
        return v[1] != 0
    if tag in 'bBsuIilL':
        return v[1]
    if tag == 'f':
        return refcodec.f32_round(v[1])
    if tag == 'd':
        return v[1]
    if tag == 'D':
        return decimal.Decimal(v[2]).scaleb(-v[1])
    if tag == 'S':
        try:
            return v[1].decode('utf-8')
        except UnicodeDecodeError:
            return bytes(v[1])
    if tag == 'x':
        return bytearray(v[1])
    if tag == 'T':
        return expect_timestamp(v[1])
    if tag == 'A':
        return [expect_value(x) for x in v[1]]
    if tag == 'F':
        return expect_table(v[1])
    return None


def expect_timestamp(n):
    if n <= 0xFFFFFFFF:
        import datetime
        y, mo, d, h, mi, sec = canon.utc_fields(n)
        return datetime.datetime(y, mo, d, h, mi, sec,
                                 tzinfo=datetime.timezone.utc)
    return MsTimestamp(n)


def expect_table(pairs):
    out = {}
    for k, x in pairs:
        out[k] = expect_value(x)
    return out


def has_overflow_ts(e):
    """does an expected value contain a timestamp the library must refuse?"""
    if isinstance(e, MsTimestamp):
        return e.ms // 1000 > MAXDT
    if isinstance(e, dict):
        return any(has_overflow_ts(x) for x in e.values())
    if isinstance(e, list):
        return any(has_overflow_ts(x) for x in e)
    return False


def tags_of(v, acc=None):
    acc = [] if acc is None else acc
    acc.append(v[0])
    if v[0] == 'A':
        for x in v[1]:
            tags_of(x, acc)
    elif v[0] == 'F':
        for _, x in v[1]:
            tags_of(x, acc)
    return acc


def table_tags(pairs):
    acc = []
    for _, x in pairs:
        tags_of(x, acc)
    return acc


def tree_depth(v):
    if v[0] == 'A':
        return 1 + max([tree_depth(x) for x in v[1]] or [0])
    if v[0] == 'F':
        return 1 + max([tree_depth(x) for _, x in v[1]] or [0])
    return 0


def nonminimal(v):
    """an integer tag carrying a value that fits an earlier ladder rung"""
    tag = v[0]
    if tag in 'sBuIilL' and isinstance(v[1], int):
        try:
            return refcodec.int_tag(v[1])[0] != tag
        except refcodec.Refuse:
            return False
    if tag == 'A':
        return any(nonminimal(x) for x in v[1])
    if tag == 'F':
        return any(nonminimal(x) for _, x in v[1])
    return False


def unsorted_keys(pairs):
    keys = [k for k, _ in pairs]
    if keys != sorted(keys):
        return True
    return any(_unsorted_in(x) for _, x in pairs)


def _unsorted_in(v):
    if v[0] == 'F':
        return unsorted_keys(v[1])
    if v[0] == 'A':
        return any(_unsorted_in(x) for x in v[1])
    return False


# ------------------------------------------------------------------ frames

REFUSED_NAMES = st.sampled_from(['bad*name', 'é', 'q' * 200, 'x' * 255, '\x00',
                                 'a\nb', '{}', 'amq.gen-✈'])


def wire_arg(dotted, f):
    t = f.type
    if t == 'octet':
        return _ints(1, False)
    if t == 'short':
        return _ints(2, False)          # ticket != 0 included
    if t == 'long':
        return _ints(4, False)
    if t == 'longlong':
        return _ints(8, True)
    if t == 'bit':
        return st.booleans()
    if t == 'shortstr':
        return st.one_of(S.shortstrs(), S.shortstrs(), REFUSED_NAMES,
                         st.sampled_from(harvest.key_like() or ['k']))
    if t == 'longstr':
        return st.one_of(raw_strings(), raw_strings(),
                         S.longstrs().map(lambda x: x.encode('utf-8')))
    if t == 'table':
        return wire_tables(8)
    raise AssertionError(t)


def wire_method_frames():
    def for_method(m):
        return st.fixed_dictionaries({
            'kind': st.just('method'), 'cls': st.just(m.dotted), 'ch': S.CHANNELS,
            'args': st.fixed_dictionaries(
                {f.name: wire_arg(m.dotted, f) for f in m.fields})
            if m.fields else st.just({})})
    return st.sampled_from(spec_table.METHODS).flatmap(for_method)


def wire_prop_value(name, wire):
    if wire == 'octet':
        return _ints(1, False)           # delivery_mode outside {1,2} included
    if wire == 'shortstr':
        return S.shortstrs()             # '' and a non-empty cluster-id included
    if wire == 'table':
        return wire_tables(6)
    if wire == 'timestamp':
        return timestamps()
    raise AssertionError(wire)


def wire_header_frames():
    def for_mask(mask):
        return st.fixed_dictionaries({
            'kind': st.just('header'), 'ch': S.CHANNELS,
            'body_size': S.BODY_SIZES,
            'weight': st.sampled_from([0, 0, 0, 1, 65535]),
            'unused_bit': st.booleans(),
            'extra_words': st.one_of(
                st.just([]), st.just([]),
                st.lists(st.integers(0, 0x7FFF).map(lambda x: x << 1),
                         min_size=1, max_size=3)),
            'props': st.fixed_dictionaries(
                {n: wire_prop_value(n, w)
                 for i, (n, _, w, _) in enumerate(spec_table.PROPERTIES)
                 if mask >> i & 1})})
    return st.integers(0, 2**14 - 1).flatmap(for_mask)


def wire_frames(big_bodies=False):
    return st.one_of(
        wire_method_frames(), wire_method_frames(), wire_header_frames(),
        st.fixed_dictionaries({'kind': st.just('body'), 'ch': S.CHANNELS,
                               'data': S.bodies(131072 if big_bodies else 300)}),
        st.fixed_dictionaries({'kind': st.just('heartbeat'), 'ch': S.CHANNELS}),
        st.fixed_dictionaries({'kind': st.just('protocol'), 'ch': st.just(0),
                               'version': st.tuples(st.integers(0, 255),
                                                    st.integers(0, 255),
                                                    st.integers(0, 255))}))


def render_frame(case):
    """-> (bytes, marks, expected) ; expected = (kind, channel, detail)"""
    kind = case['kind']
    out = Out()
    if kind == 'protocol':
        a, b, c = case['version']
        return b'AMQP\x00' + bytes((a, b, c)), [], ('protocol', 0, (a, b, c))
    ch = case['ch']
    out.mark('ftype', 1)
    out.add(bytes([{'method': 1, 'header': 2, 'body': 3, 'heartbeat': 8}[kind]]))
    out.mark('channel', 2)
    out.add(uint(ch, 2))
    out.mark('size', 4)
    out.add(b'\x00\x00\x00\x00')
    if kind == 'method':
        m = spec_table.BY_NAME[case['cls']]
        out.mark('index', 4)
        out.add(uint(m.class_id, 2) + uint(m.method_id, 2))
        exp = {}
        bits, nbits = 0, 0
        for f in m.fields:
            v = case['args'][f.name]
            if f.type == 'bit':
                if nbits == 0:
                    out.mark('bits', 1)
                if v:
                    bits |= 1 << nbits
                nbits += 1
                exp[f.name] = bool(v)
                continue
            if nbits:
                out.add(bytes([bits]))
                bits, nbits = 0, 0
            if f.type in ('octet', 'short', 'long'):
                out.add(uint(v, {'octet': 1, 'short': 2, 'long': 4}[f.type]))
                exp[f.name] = v
            elif f.type == 'longlong':
                out.add(sint(v, 8))
                exp[f.name] = v
            elif f.type == 'shortstr':
                raw = v.encode('utf-8')
                out.mark('len8', 1)
                out.add(uint(len(raw), 1) + raw)
                exp[f.name] = v
            elif f.type == 'longstr':
                out.mark('len32', 4)
                out.add(uint(len(v), 4) + v)
                exp[f.name] = expect_value(['S', v])
            elif f.type == 'table':
                render_table(v, out)
                exp[f.name] = expect_table(v)
        if nbits:
            out.add(bytes([bits]))
        detail = (case['cls'], exp)
    elif kind == 'header':
        out.add(uint(60, 2) + uint(case['weight'], 2) + uint(case['body_size'], 8))
        flags = 0
        for name, _, _, bit in spec_table.PROPERTIES:
            if name in case['props']:
                flags |= 1 << bit
        if case['unused_bit']:
            flags |= 2
        words = [flags] + list(case['extra_words'])
        for i, w in enumerate(words):
            out.mark('flags', 2)
            out.add(uint(w | (1 if i < len(words) - 1 else 0), 2))
        exp = {}
        for name, _, wire, bit in spec_table.PROPERTIES:
            if name not in case['props']:
                continue
            v = case['props'][name]
            if wire == 'octet':
                out.add(uint(v, 1))
                exp[name] = v
            elif wire == 'shortstr':
                raw = v.encode('utf-8')
                out.mark('len8', 1)
                out.add(uint(len(raw), 1) + raw)
                exp[name] = v
            elif wire == 'table':
                render_table(v, out)
                exp[name] = expect_table(v)
            elif wire == 'timestamp':
                out.mark('timestamp', 8)
                out.add(uint(v, 8))
                exp[name] = expect_timestamp(v)
        detail = (case['weight'], case['body_size'], exp, len(words))
    elif kind == 'body':
        out.add(case['data'])
        detail = bytes(case['data'])
    else:
        detail = None
    out.buf[3:7] = uint(len(out.buf) - 7, 4)
    out.mark('end', 1)
    out.add(b'\xce')
    return bytes(out.buf), out.marks, (kind, ch, detail)


def selfcheck_frame(data, expected):
    """harness self-check: the reference *decoder* must assign the expected values"""
    n, ch, kind, detail = refcodec.dec_frame(data)
    ekind, ech, edetail = expected
    if n != len(data) or kind != ekind or ch != ech:
        return 'reference decoder envelope: %r' % ((n, ch, kind),)
    if kind == 'method':
        if detail[0] != edetail[0]:
            return 'reference decoder class'
        return _same(detail[1], edetail[1])
    if kind == 'header':
        cid, weight, size, props, nwords = detail
        if (weight, size, nwords) != (edetail[0], edetail[1], edetail[3]):
            return 'reference decoder header fields'
        return _same(props, edetail[2])
    if kind == 'body':
        return None if detail == edetail else 'reference decoder body'
    if kind == 'protocol':
        return None if tuple(detail) == tuple(edetail) else 'ref protocol'
    return None


def _same(a, b):
    if isinstance(a, MsTimestamp) or isinstance(b, MsTimestamp):
        return None if (isinstance(a, MsTimestamp) and isinstance(b, MsTimestamp)
                        and a.ms == b.ms) else 'ms timestamp'
    if isinstance(a, dict) and isinstance(b, dict):
        if set(a) != set(b):
            return 'keys %r / %r' % (sorted(a), sorted(b))
        for k in a:
            r = _same(a[k], b[k])
            if r:
                return r
        return None
    if isinstance(a, list) and isinstance(b, list):
        if len(a) != len(b):
            return 'len'
        for x, y in zip(a, b):
            r = _same(x, y)
            if r:
                return r
        return None
    return None if canon.canon(a) == canon.canon(b) else \
        '%r vs %r' % (a, b)


# ------------------------------------------------------------------ curated frames

ALL_TAG_TABLE = [
    ['bool', ['t', 1]], ['i8', ['b', -2]], ['u8', ['B', 200]], ['i16', ['s', -300]],
    ['u16', ['u', 60000]], ['i32', ['I', -70000]], ['u32', ['i', 4000000000]],
    ['i64', ['l', -2**40]], ['L', ['L', 2**40]], ['f', ['f', 1.5]],
    ['d', ['d', 0.1]], ['dec', ['D', 2, -314]], ['str', ['S', b'caf\xc3\xa9']],
    ['raw', ['S', b'\xff\xfe']], ['arr', ['A', [['b', 1], ['S', b'x'], ['V']]]],
    ['ts', ['T', 1600000000]], ['tbl', ['F', [['k', ['t', 0]], ['', ['V']]]]],
    ['void', ['V']], ['nul', ['\x00']], ['bytes', ['x', b'\x00\x01\xce']],
    ['nest', ['F', [['a', ['A', [['F', [['z', ['A', []]]]]]]]]]],
]


def catalogue_frames():
    """one deterministic wire frame per method class (tables carry all 19 tags), two
    content headers (all properties; two flag words), a body, a heartbeat, a protocol
    header"""
    out = []
    for i, m in enumerate(spec_table.METHODS):
        args = {}
        for j, f in enumerate(m.fields):
            t = f.type
            if t in ('octet', 'short', 'long'):
                args[f.name] = (j * 37 + 5) % 250
            elif t == 'longlong':
                args[f.name] = -(j + 2) * 1000003
            elif t == 'bit':
                args[f.name] = (i + j) % 2 == 0
            elif t == 'shortstr':
                args[f.name] = 'n%d.%s' % (j, f.wire[:6])
            elif t == 'longstr':
                args[f.name] = b'long \xe2\x9c\x88 %d' % j
            else:
                args[f.name] = ALL_TAG_TABLE
        out.append({'kind': 'method', 'cls': m.dotted, 'ch': 1 + i, 'args': args})
    props = {}
    for j, (n, _, w, _) in enumerate(spec_table.PROPERTIES):
        props[n] = {'octet': 1 + j % 2, 'shortstr': 'p%d' % j,
                    'table': ALL_TAG_TABLE, 'timestamp': 1500000000 + j}[w]
    out.append({'kind': 'header', 'ch': 7, 'body_size': 2**40, 'weight': 0,
                'unused_bit': False, 'extra_words': [], 'props': props})
    out.append({'kind': 'header', 'ch': 8, 'body_size': 3, 'weight': 0,
                'unused_bit': True, 'extra_words': [0x8000, 0x0002],
                'props': {'content_type': 'abc', 'priority': 0,
                          'timestamp': 1700000000123}})
    out.append({'kind': 'body', 'ch': 9, 'data': b'hello \xce world'})
    out.append({'kind': 'heartbeat', 'ch': 0})
    out.append({'kind': 'protocol', 'ch': 0, 'version': (0, 9, 1)})
    return out


def dictionary_words():
    """identifier-like literals harvested from the tree under test"""
    import re
    pat = re.compile(r'^[A-Za-z_$#x][A-Za-z0-9_.$#:-]{2,40}$')
    return [w for w in harvest.key_like() if pat.match(w)]


def dictionary_frames():
    """well-formed frames in which every harvested identifier-like literal appears as a
    table key next to a value of every type tag (in a method table and in the headers of a
    content header that carries all 14 properties), and as a short-string value"""
    out = []
    values = [v for _, v in ALL_TAG_TABLE]
    allprops = {}
    for j, (n, _, w, _) in enumerate(spec_table.PROPERTIES):
        allprops[n] = {'octet': 1 + j % 2, 'shortstr': 'p%d' % j, 'table': [],
                       'timestamp': 1500000000 + j}[w]
    for word in dictionary_words():
        for v in values:
            out.append({'kind': 'method', 'cls': 'Queue.Declare', 'ch': 1,
                        'args': {'ticket': 0, 'queue': 'q', 'passive': False,
                                 'durable': True, 'exclusive': False,
                                 'auto_delete': False, 'nowait': False,
                                 'arguments': [[word, v], ['other', ['b', 1]]]}})
            out.append({'kind': 'header', 'ch': 1, 'body_size': 1, 'weight': 0,
                        'unused_bit': False, 'extra_words': [],
                        'props': dict(allprops, headers=[[word, v]])})
        strprops = {n: word for n, _, w, _ in spec_table.PROPERTIES if w == 'shortstr'}
        out.append({'kind': 'header', 'ch': 1, 'body_size': 1, 'weight': 0,
                    'unused_bit': False, 'extra_words': [],
                    'props': dict(allprops, **strprops)})
        out.append({'kind': 'method', 'cls': 'Basic.Publish', 'ch': 1,
                    'args': {'ticket': 0, 'exchange': word, 'routing_key': word,
                             'mandatory': False, 'immediate': True}})
        out.append({'kind': 'method', 'cls': 'Connection.StartOk', 'ch': 0,
                    'args': {'client_properties': [[word, ['S', word.encode()]]],
                             'mechanism': word, 'response': word.encode(),
                             'locale': word}})
    return out
