"""Shared input domain for C08 (bounded work) and C09 (exception type): arbitrary byte
strings reaching the decoder - random, grammar-generated frames with injected faults,
dense adversarial shapes, and exhaustive single-byte / located-field corruption sweeps
over a deterministic catalogue of seed frames."""
import json
import os

from hypothesis import strategies as st

from pbt import faults as F, harvest, strategies as S, wire
from pbt.refcodec import u as uint
from pbt.runner import VERIF

# ------------------------------------------------------------------ seeds

_SEEDS = None


def seeds():
    """[(name, bytes, marks)]: catalogue frames (with marks) + repository fixtures"""
    global _SEEDS
    if _SEEDS is None:
        out = []
        for c in wire.catalogue_frames():
            data, marks, _ = wire.render_frame(c)
            name = c.get('cls', c['kind'])
            out.append((name, data, marks))
        with open(os.path.join(VERIF, 'corpus', 'fixtures.json')) as f:
            fx = json.load(f)
        for it in fx['fixtures']:
            out.append(('fixture:' + it['test'], bytes.fromhex(it['data']), []))
        _SEEDS = out
    return _SEEDS


# indices of small, structurally rich seeds used by the quick tier byte sweep
def quick_seed_indices():
    idx = []
    for i, (name, data, marks) in enumerate(seeds()):
        if name.startswith('fixture:') and len(data) <= 64:
            idx.append(i)
    names = {'Basic.Publish', 'Basic.Deliver', 'Queue.DeclareOk', 'Basic.Nack',
             'Confirm.Select', 'Tx.Commit', 'Channel.Close', 'heartbeat', 'protocol',
             'body', 'header', 'Connection.Tune'}
    idx += [i for i, s in enumerate(seeds()) if s[0] in names]
    return idx


# ------------------------------------------------------------------ dense shapes

def dense_payload(shape, n):
    """field-table payloads that maximise decoded elements / loop iterations per byte"""
    if shape == 'voids':                     # array of n voids
        body = b'V' * n
        val = b'A' + uint(len(body), 4) + body
    elif shape == 'nulls':
        body = b'\x00' * n
        val = b'A' + uint(len(body), 4) + body
    elif shape == 'empty-keys':              # table of n entries '' -> V
        body = b'\x00V' * n
        val = b'F' + uint(len(body), 4) + body
    elif shape == 'empty-arrays':            # array of n empty arrays
        body = b'A\x00\x00\x00\x00' * n
        val = b'A' + uint(len(body), 4) + body
    elif shape == 'nested-arrays':           # n-deep nesting
        val = b'V'
        for _ in range(n):
            val = b'A' + uint(len(val), 4) + val
    elif shape == 'nested-tables':
        val = b'V'
        for _ in range(n):
            val = b'F' + uint(len(val) + 1, 4) + b'\x00' + val
    elif shape == 'bools':
        body = b't\x01' * n
        val = b'A' + uint(len(body), 4) + body
    else:
        raise AssertionError(shape)
    entry = b'\x01k' + val
    return uint(len(entry), 4) + entry


DENSE_SHAPES = ['voids', 'nulls', 'empty-keys', 'empty-arrays', 'nested-arrays',
                'nested-tables', 'bools']


def dense_frame(shape, n, carrier):
    table = dense_payload(shape, n)
    if carrier == 'method':                  # Connection.StartOk client_properties
        payload = b'\x00\x0a\x00\x0b' + table + b'\x05PLAIN\x00\x00\x00\x00\x05en_US'
        t = 1
    else:                                    # content header, headers property
        payload = b'\x00\x3c\x00\x00' + uint(0, 8) + b'\x20\x00' + table
        t = 2
    return bytes([t]) + b'\x00\x01' + uint(len(payload), 4) + payload + b'\xce'


# ------------------------------------------------------------------ case -> bytes

def build(case):
    if 'raw' in case:
        return case['raw']
    if 'dense' in case:
        shape, n, carrier = case['dense']
        data = dense_frame(shape, n, carrier)
        return F.apply(data, [], case.get('faults', []))
    if 'seed' in case:
        name, data, marks = seeds()[case['seed']]
        return F.apply(data, marks, case.get('faults', []))
    data, marks, _ = wire.render_frame(case['frame'])
    return F.apply(data, marks, case.get('faults', []))


def envelope_ok(data):
    """would the frame-level guards let content decoding start?"""
    if len(data) < 8 or data[:4] == b'AMQP':
        return False
    size = int.from_bytes(data[3:7], 'big')
    return size > 0 and size + 8 <= len(data) and data[size + 7] == 0xCE and \
        data[0] in (1, 2, 3)


# ------------------------------------------------------------------ strategies

def enveloped_random():
    """random payload behind a valid envelope and (mostly) a valid method index, so
    content decoding is reached"""
    from pbt import spec_table
    idx = st.sampled_from([m.index for m in spec_table.METHODS])

    def meth(index, payload, ch):
        p = uint(index, 4) + payload
        return b'\x01' + uint(ch, 2) + uint(len(p), 4) + p + b'\xce'

    def hdr(flags, payload, ch):
        p = b'\x00\x3c\x00\x00' + uint(7, 8) + uint(flags, 2) + payload
        return b'\x02' + uint(ch, 2) + uint(len(p), 4) + p + b'\xce'
    payloads = st.one_of(st.binary(max_size=40), st.binary(max_size=400),
                         st.lists(st.sampled_from(
                             [b'\x00', b'\x01', b'\xff', b'A', b'F', b'S', b'V', b'T',
                              b'x', b'D', b'\x00\x00\x00\x01', b'\x00\x00\x00\x05',
                              b'\x01k', b'\x00']), max_size=60).map(b''.join))
    return st.one_of(
        st.builds(meth, idx, payloads, S.CHANNELS),
        st.builds(hdr, st.integers(0, 0xFFFF), payloads, S.CHANNELS))


def random_cases(tier):
    big = 131080 if tier == 'thorough' else 4096
    return st.one_of(
        st.binary(max_size=64), st.binary(max_size=big),
        enveloped_random(), enveloped_random(),
    ).map(lambda b: {'raw': b})


def faulted_cases(tier):
    return st.fixed_dictionaries({'frame': wire.wire_frames(big_bodies=False),
                                  'faults': F.faults()})


def seed_fault_cases(tier):
    return st.fixed_dictionaries({'seed': st.integers(0, len(seeds()) - 1),
                                  'faults': F.faults()})


def deep_random_cases(tier):
    """random chains (explicit depth) with 1-2 random faults"""
    return st.fixed_dictionaries({
        'frame': st.builds(deep_frame, st.integers(1, 64),
                           st.sampled_from(['A', 'F', 'AF', 'FA', 'AAF']),
                           wire.wire_leaves()),
        'faults': F.faults()})


def dense_cases(tier):
    top = 26000 if tier == 'thorough' else 800
    return st.fixed_dictionaries({
        'dense': st.tuples(st.sampled_from(DENSE_SHAPES),
                           st.one_of(st.integers(0, 64), st.integers(0, top)),
                           st.sampled_from(['method', 'header'])),
        'faults': st.one_of(st.just([]), st.just([]), F.faults())})


# ------------------------------------------------------------------ sweeps

def byte_sweep_plan(tier):
    """[(seed index, offset)] for the exhaustive single-byte substitution sweep"""
    idx = quick_seed_indices() if tier == 'quick' else range(len(seeds()))
    plan = []
    for i in idx:
        data = seeds()[i][1]
        limit = len(data) if (tier != 'quick' or len(data) <= 80) else 80
        for off in range(limit):
            plan.append((i, off))
    return plan


def field_sweep_cases(tier, shard, nshards):
    k = 0
    args = (0, 5, 0x1234, 0xDEADBEEFCAFE)
    neg_args = tuple(range(0, 24))
    for i, (name, data, marks) in enumerate(seeds()):
        for mi in range(len(marks)):
            for mode in F.FIELD_MODES:
                for arg in (args if mode in ('uniform', 'small', 'big') else
                            neg_args if mode in ('neg-small', 'neg-rest') else (0,)):
                    for fix in (False, True):
                        if k % nshards == shard:
                            yield {'seed': i,
                                   'faults': [['field', mi, mode, arg, fix]]}
                        k += 1


def deep_frame(depth, pattern, leaf, key='k'):
    return {'kind': 'method', 'cls': 'Queue.Declare', 'ch': 1,
            'args': {'ticket': 0, 'queue': 'q', 'passive': False, 'durable': True,
                     'exclusive': False, 'auto_delete': False, 'nowait': False,
                     'arguments': [['deep', wire.chain(depth, pattern, leaf, key)]]}}


def uniform_fault_cases(tier, shard, nshards):
    """one rewrite applied to EVERY located field of one kind of a container chain (all
    table lengths -> 1, all array lengths -> 0, all string lengths + 1 ...): faults that
    only add up across nesting levels"""
    kinds = ('len32:F', 'len32:A', 'len32:S', 'len8', 'tag')
    modes = (('zero', 0), ('one', 0), ('small', 2), ('small', 5), ('inc', 0),
             ('dec', 0), ('double', 0), ('rest', 0), ('ff', 0), ('neg-small', 1))
    k = 0
    for depth in (1, 2, 3, 4, 6, 8, 10, 12, 14, 16, 18, 20, 24, 32, 48, 64):
        for pattern in ('A', 'F', 'AF', 'FA', 'AAF', 'FFA'):
            for key in ('', 'k'):
                for leaf in (['V'], ['S', b'xyz'], ['A', []]):
                    frame_case = deep_frame(depth, pattern, leaf, key)
                    for kind in kinds:
                        for mode, arg in modes:
                            if k % nshards == shard:
                                yield {'frame': frame_case,
                                       'faults': [['fields', kind, mode, arg, True]]}
                            k += 1


def deep_fault_cases(tier, shard, nshards):
    """container chains of every depth 1..64 with one located field (the innermost /
    outermost lengths and tags) rewritten: depth x pattern x leaf x mark x mode"""
    leaves = (['S', b'xyz'], ['x', b'xyz'], ['A', []], ['V'])
    modes = (('inc', 0), ('dec', 0), ('double', 0), ('rest', 0), ('rest+1', 0),
             ('zero', 0), ('ff', 0), ('neg-small', 3), ('big', 0))
    k = 0
    for depth in range(1, 65):
        for pattern in ('A', 'F', 'AF'):
            for leaf in leaves:
                frame_case = deep_frame(depth, pattern, leaf)
                nmarks = len(wire.render_frame(frame_case)[1])
                picks = sorted(set(range(max(0, nmarks - 6), nmarks)) | {4, 5})
                for mi in picks:
                    for mode, arg in modes:
                        if k % nshards == shard:
                            yield {'frame': frame_case,
                                   'faults': [['field', mi, mode, arg, k % 2 == 0]]}
                        k += 1


def dictionary_cases(tier, shard, nshards):
    return [{'frame': f, 'faults': []} for f in wire.dictionary_frames()][shard::nshards]


def wellformed_cases(tier):
    return st.fixed_dictionaries({'frame': wire.wire_frames(big_bodies=False),
                                  'faults': st.just([])})


def hostile_key_cases(tier, shard, nshards):
    """a decode failure next to a peer-controlled name that is hostile to templating:
    every hostile key x every way a table value can fail x nesting position x carrier"""
    bad_values = [
        b'Z',                                   # unknown type tag
        b'T\xff\xff\xff\xff\xff\xff\xff\xff',  # timestamp beyond year 9999
        b'T\x00\x03\x8d\x7e\xa4\xc6\x80\x00',  # 10**15 ms: year > 9999
        b'A\x00\x00\x00\xff',                   # array longer than the data
        b'F\x00\x00\x00\xff',                   # table longer than the data
        b'S\x00\x00',                           # truncated length
        b'F\x00\x00\x00\x03\x01\xffV',          # nested key that is not UTF-8
        b'F\x00\x00\x00\x03\x01kZ',             # nested unknown tag
        b'D\x01',                               # truncated decimal
        b'V',                                   # (control: a good value)
        b'DUP',                                 # the same name twice, good values
    ]
    k = 0
    for key in wire.HOSTILE_KEYS + harvest.key_like():
        raw = key.encode('utf-8', 'surrogatepass')
        for bad in bad_values:
            for nest in ('top', 'in-table', 'in-array'):
                entry = bytes([len(raw)]) + raw + bad
                if bad == b'DUP':
                    one = bytes([len(raw)]) + raw
                    entry = one + b'b\x01' + one + b'S\x00\x00\x00\x01x' + one + b'V'
                if nest == 'in-table':
                    entry = b'\x01oF' + uint(len(entry), 4) + entry
                elif nest == 'in-array':
                    inner = b'F' + uint(len(entry), 4) + entry
                    entry = b'\x01oA' + uint(len(inner), 4) + inner
                table = uint(len(entry), 4) + entry
                for carrier in ('method', 'header'):
                    if k % nshards == shard:
                        if carrier == 'method':
                            payload = b'\x00\x32\x00\x0a\x00\x00\x01q\x00' + table
                            t = 1
                        else:
                            payload = b'\x00\x3c\x00\x00' + uint(0, 8) + \
                                b'\x20\x00' + table
                            t = 2
                        yield {'raw': bytes([t]) + b'\x00\x01' +
                               uint(len(payload), 4) + payload + b'\xce'}
                    k += 1


def trunc_sweep_cases(tier, shard, nshards):
    k = 0
    for i, (name, data, marks) in enumerate(seeds()):
        if len(data) <= 8 or data[:4] == b'AMQP':
            continue
        for n in range(len(data) - 8):
            if k % nshards == shard:
                yield {'seed': i, 'faults': [['trunc', n, True]]}
            k += 1
