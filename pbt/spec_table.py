"""Transcribed AMQP 0-9-1 + RabbitMQ method catalogue (DESIGN.md Appendix A/B).

This module never imports pamqp.  It is the oracle for C14/C17/C19 and the source of
argument order and wire types for the reference codec (C04/C05) and generators.

Format: ``class(id).method(id): field:type[=default] ...  -> replies``.
Types: o octet, h short, l long, q longlong, b bit, s shortstr, S longstr, T table.
``=∅`` means the specification gives no default (constructor default None); T defaults to an
empty table.  Defaults marked † come from codegen/extensions.xml.
"""
import ast
import collections

SPEC_TEXT = """\
connection(10).start(10): version-major:o=0 version-minor:o=9 server-properties:T mechanisms:S='PLAIN' locales:S='en_US' → start-ok
connection(10).start-ok(11): client-properties:T mechanism:s='PLAIN' response:S=''† locale:s='en_US'
connection(10).secure(20): challenge:S=∅ → secure-ok
connection(10).secure-ok(21): response:S=∅
connection(10).tune(30): channel-max:h=0 frame-max:l=0 heartbeat:h=0 → tune-ok
connection(10).tune-ok(31): channel-max:h=0 frame-max:l=0 heartbeat:h=0
connection(10).open(40): virtual-host:s='/' capabilities:s='' insist:b=False → open-ok
connection(10).open-ok(41): known-hosts:s=''
connection(10).close(50): reply-code:h=∅ reply-text:s='' class-id:h=∅ method-id:h=∅ → close-ok
connection(10).close-ok(51):
connection(10).blocked(60): reason:s=''
connection(10).unblocked(61):
connection(10).update-secret(70): new-secret:S=∅ reason:s=∅ → update-secret-ok
connection(10).update-secret-ok(71):
channel(20).open(10): out-of-band:s='0'† → open-ok
channel(20).open-ok(11): channel-id:S='0'†
channel(20).flow(20): active:b=∅ → flow-ok
channel(20).flow-ok(21): active:b=∅
channel(20).close(40): reply-code:h=∅ reply-text:s='' class-id:h=∅ method-id:h=∅ → close-ok
channel(20).close-ok(41):
exchange(40).declare(10): ticket:h=0 exchange:s='' type:s='direct' passive:b=False durable:b=False auto-delete:b=False internal:b=False nowait:b=False arguments:T → declare-ok
exchange(40).declare-ok(11):
exchange(40).delete(20): ticket:h=0 exchange:s='' if-unused:b=False nowait:b=False → delete-ok
exchange(40).delete-ok(21):
exchange(40).bind(30): ticket:h=0 destination:s='' source:s='' routing-key:s='' nowait:b=False arguments:T → bind-ok
exchange(40).bind-ok(31):
exchange(40).unbind(40): ticket:h=0 destination:s='' source:s='' routing-key:s='' nowait:b=False arguments:T → unbind-ok
exchange(40).unbind-ok(51):
queue(50).declare(10): ticket:h=0 queue:s='' passive:b=False durable:b=False exclusive:b=False auto-delete:b=False nowait:b=False arguments:T → declare-ok
queue(50).declare-ok(11): queue:s=∅ message-count:l=∅ consumer-count:l=∅
queue(50).bind(20): ticket:h=0 queue:s='' exchange:s='' routing-key:s='' nowait:b=False arguments:T → bind-ok
queue(50).bind-ok(21):
queue(50).purge(30): ticket:h=0 queue:s='' nowait:b=False → purge-ok
queue(50).purge-ok(31): message-count:l=∅
queue(50).delete(40): ticket:h=0 queue:s='' if-unused:b=False if-empty:b=False nowait:b=False → delete-ok
queue(50).delete-ok(41): message-count:l=∅
queue(50).unbind(50): ticket:h=0 queue:s='' exchange:s='' routing-key:s='' arguments:T → unbind-ok
queue(50).unbind-ok(51):
basic(60).qos(10): prefetch-size:l=0 prefetch-count:h=0 global:b=False → qos-ok
basic(60).qos-ok(11):
basic(60).consume(20): ticket:h=0 queue:s='' consumer-tag:s='' no-local:b=False no-ack:b=False exclusive:b=False nowait:b=False arguments:T → consume-ok
basic(60).consume-ok(21): consumer-tag:s=∅
basic(60).cancel(30): consumer-tag:s=∅ nowait:b=False → cancel-ok
basic(60).cancel-ok(31): consumer-tag:s=∅
basic(60).publish(40): ticket:h=0 exchange:s='' routing-key:s='' mandatory:b=False immediate:b=False
basic(60).return(50): reply-code:h=∅ reply-text:s='' exchange:s='' routing-key:s=∅
basic(60).deliver(60): consumer-tag:s=∅ delivery-tag:q=∅ redelivered:b=False exchange:s='' routing-key:s=∅
basic(60).get(70): ticket:h=0 queue:s='' no-ack:b=False → get-ok get-empty
basic(60).get-ok(71): delivery-tag:q=∅ redelivered:b=False exchange:s='' routing-key:s=∅ message-count:l=∅
basic(60).get-empty(72): cluster-id:s=''
basic(60).ack(80): delivery-tag:q=0 multiple:b=False
basic(60).reject(90): delivery-tag:q=∅ requeue:b=True
basic(60).recover-async(100): requeue:b=False
basic(60).recover(110): requeue:b=False → recover-ok
basic(60).recover-ok(111):
basic(60).nack(120): delivery-tag:q=0 multiple:b=False requeue:b=True
tx(90).select(10): → select-ok
tx(90).select-ok(11):
tx(90).commit(20): → commit-ok
tx(90).commit-ok(21):
tx(90).rollback(30): → rollback-ok
tx(90).rollback-ok(31):
confirm(85).select(10): nowait:b=False → select-ok
confirm(85).select-ok(11):
"""

TYPE_NAMES = {'o': 'octet', 'h': 'short', 'l': 'long', 'q': 'longlong',
              'b': 'bit', 's': 'shortstr', 'S': 'longstr', 'T': 'table'}

NO_DEFAULT = object()

Field = collections.namedtuple('Field', 'name wire type default from_extension')
Method = collections.namedtuple(
    'Method', 'class_name class_id method_name method_id pyclass pyname '
    'dotted index fields replies')


def _camel(s):
    return ''.join(p.capitalize() for p in s.split('-'))


def _pyfield(cls, meth, wire):
    if wire == 'type':
        return 'exchange_type'
    if wire == 'global':
        return 'global_'
    return wire.replace('-', '_')


def _parse():
    out = []
    for line in SPEC_TEXT.strip().splitlines():
        head, _, rest = line.partition(':')
        cpart, mpart = head.split('.')
        cname, cid = cpart[:-1].split('(')
        mname, mid = mpart[:-1].split('(')
        rest, _, replies = rest.partition('\u2192')
        fields = []
        for tok in _tokens(rest.strip()):
            decl, eq, dflt = tok.partition('=')
            wire, _, t = decl.rpartition(':')
            ext = dflt.endswith('\u2020')
            if ext:
                dflt = dflt[:-1]
            if not eq:
                default = {} if t == 'T' else NO_DEFAULT
            elif dflt == '\u2205':
                default = None
            else:
                default = ast.literal_eval(dflt)
            fields.append(Field(_pyfield(cname, mname, wire), wire,
                                TYPE_NAMES[t], default, ext))
        pyclass, pyname = _camel(cname), _camel(mname)
        out.append(Method(cname, int(cid), mname, int(mid), pyclass, pyname,
                          pyclass + '.' + pyname,
                          (int(cid) << 16) | int(mid), tuple(fields),
                          tuple(pyclass + '.' + _camel(r)
                                for r in replies.split())))
    return out


def _tokens(s):
    """split on spaces outside quotes"""
    toks, cur, q = [], '', None
    for ch in s:
        if q:
            cur += ch
            if ch == q:
                q = None
        elif ch in '\'"':
            q = ch
            cur += ch
        elif ch == ' ':
            if cur:
                toks.append(cur)
            cur = ''
        else:
            cur += ch
    if cur:
        toks.append(cur)
    return toks


METHODS = _parse()
BY_NAME = {m.dotted: m for m in METHODS}
BY_INDEX = {m.index: m for m in METHODS}
assert len(METHODS) == 64 and len(BY_INDEX) == 64

# Basic.Properties: (python name, wire name, type, flag bit)
PROPERTIES = [
    ('content_type', 'content-type', 'shortstr', 15),
    ('content_encoding', 'content-encoding', 'shortstr', 14),
    ('headers', 'headers', 'table', 13),
    ('delivery_mode', 'delivery-mode', 'octet', 12),
    ('priority', 'priority', 'octet', 11),
    ('correlation_id', 'correlation-id', 'shortstr', 10),
    ('reply_to', 'reply-to', 'shortstr', 9),
    ('expiration', 'expiration', 'shortstr', 8),
    ('message_id', 'message-id', 'shortstr', 7),
    ('timestamp', 'timestamp', 'timestamp', 6),
    ('message_type', 'type', 'shortstr', 5),
    ('user_id', 'user-id', 'shortstr', 4),
    ('app_id', 'app-id', 'shortstr', 3),
    ('cluster_id', 'cluster-id', 'shortstr', 2),
]
PROPERTY_DEFAULTS = {name: None for name, _, _, _ in PROPERTIES}
PROPERTY_DEFAULTS['cluster_id'] = ''
BASIC_CLASS_ID = 60

# ---- validation constraints (oracle for C13), by domain ------------------------------
NAME_ALPHABET = frozenset(
    'abcdefghijklmnopqrstuvwxyzABCDEFGHIJKLMNOPQRSTUVWXYZ0123456789-_.:@#,/ ')
EXCHANGE_NAME_SLOTS = [
    ('Exchange.Declare', 'exchange'), ('Exchange.Delete', 'exchange'),
    ('Exchange.Bind', 'destination'), ('Exchange.Bind', 'source'),
    ('Exchange.Unbind', 'destination'), ('Exchange.Unbind', 'source'),
    ('Queue.Bind', 'exchange'), ('Queue.Unbind', 'exchange'),
    ('Basic.Publish', 'exchange'), ('Basic.Return', 'exchange'),
    ('Basic.Deliver', 'exchange'), ('Basic.GetOk', 'exchange'),
]
QUEUE_NAME_SLOTS = [
    ('Queue.Declare', 'queue'), ('Queue.DeclareOk', 'queue'),
    ('Queue.Bind', 'queue'), ('Queue.Purge', 'queue'),
    ('Queue.Delete', 'queue'), ('Queue.Unbind', 'queue'),
    ('Basic.Consume', 'queue'), ('Basic.Get', 'queue'),
]
PATH_SLOTS = [('Connection.Open', 'virtual_host')]
TICKET_CLASSES = [
    'Exchange.Declare', 'Exchange.Delete', 'Exchange.Bind', 'Exchange.Unbind',
    'Queue.Declare', 'Queue.Bind', 'Queue.Purge', 'Queue.Delete',
    'Queue.Unbind', 'Basic.Consume', 'Basic.Publish', 'Basic.Get',
]
FIXED_SLOTS = [
    ('Connection.Open', 'capabilities', ''), ('Connection.Open', 'insist', False),
    ('Connection.OpenOk', 'known_hosts', ''),
    ('Channel.Open', 'out_of_band', '0'), ('Channel.OpenOk', 'channel_id', '0'),
    ('Basic.GetEmpty', 'cluster_id', ''),
]
EXCHANGE_NAME_MAX = 127
QUEUE_NAME_MAX = 256
PATH_MAX = 127

# ---- Appendix B: reply codes and constants (oracle for C17) --------------------------
SOFT_ERRORS = {311: 'CONTENT-TOO-LARGE', 312: 'NO-ROUTE', 313: 'NO-CONSUMERS',
               403: 'ACCESS-REFUSED', 404: 'NOT-FOUND', 405: 'RESOURCE-LOCKED',
               406: 'PRECONDITION-FAILED'}
HARD_ERRORS = {320: 'CONNECTION-FORCED', 402: 'INVALID-PATH', 501: 'FRAME-ERROR',
               502: 'SYNTAX-ERROR', 503: 'COMMAND-INVALID', 504: 'CHANNEL-ERROR',
               505: 'UNEXPECTED-FRAME', 506: 'RESOURCE-ERROR', 530: 'NOT-ALLOWED',
               540: 'NOT-IMPLEMENTED', 541: 'INTERNAL-ERROR'}
CONSTANTS = {'FRAME_METHOD': 1, 'FRAME_HEADER': 2, 'FRAME_BODY': 3,
             'FRAME_HEARTBEAT': 8, 'FRAME_END': 206, 'FRAME_END_CHAR': b'\xce',
             'FRAME_MIN_SIZE': 4096, 'FRAME_HEADER_SIZE': 7,
             'VERSION': (0, 9, 1), 'AMQP': b'AMQP', 'REPLY_SUCCESS': 200}
