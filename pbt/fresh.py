"""Fresh-interpreter oracle for C16.

``python -m pbt.fresh`` is a *new interpreter* that imports pamqp and then only forks:
each request (one JSON line: {"legacy": bool, "call": tagged-json}) is executed in a
fork of the pristine image and answered with one JSON line {"result": str}.  So the
answer is literally "the result this call gives in a fresh interpreter".
"""
import json
import os
import subprocess
import sys


def serve():
    from pbt import runner
    runner.setup_imports()
    from pbt import calls, canon
    from pamqp import encode
    out = sys.stdout
    for line in sys.stdin:
        req = json.loads(line)
        r, w = os.pipe()
        pid = os.fork()
        if pid == 0:
            try:
                os.close(r)
                encode.support_deprecated_rabbitmq(bool(req['legacy']))
                res = calls.execute(canon.from_json(req['call']))
                os.write(w, json.dumps({'result': res}).encode())
            except BaseException as e:     # harness problem inside the child
                os.write(w, json.dumps({'error': repr(e)}).encode())
            finally:
                os._exit(0)
        os.close(w)
        chunks = []
        while True:
            b = os.read(r, 65536)
            if not b:
                break
            chunks.append(b)
        os.close(r)
        os.waitpid(pid, 0)
        out.write(b''.join(chunks).decode() + '\n')
        out.flush()


class Fresh:
    """client side"""

    def __init__(self):
        from pbt.runner import REPO, VERIF
        env = dict(os.environ, PAMQP_REPO=REPO, PYTHONHASHSEED='0',
                   PYTHONDONTWRITEBYTECODE='1')
        self.proc = subprocess.Popen([sys.executable, '-B', '-m', 'pbt.fresh'],
                                     cwd=VERIF, env=env, stdin=subprocess.PIPE,
                                     stdout=subprocess.PIPE, text=True, bufsize=1)
        self.cache = {}

    def ask(self, legacy, call):
        from pbt import canon
        key = json.dumps({'legacy': bool(legacy), 'call': canon.to_json(call)},
                         sort_keys=True)
        hit = self.cache.get(key)
        if hit is not None:
            return hit
        self.proc.stdin.write(key + '\n')
        self.proc.stdin.flush()
        line = self.proc.stdout.readline()
        if not line:
            raise RuntimeError('fresh server died')
        ans = json.loads(line)
        if 'error' in ans:
            raise RuntimeError('fresh server: ' + ans['error'])
        if len(self.cache) < 50000:
            self.cache[key] = ans['result']
        return ans['result']

    def close(self):
        try:
            self.proc.stdin.close()
            self.proc.wait(timeout=10)
        except Exception:
            self.proc.kill()


if __name__ == '__main__':
    serve()
