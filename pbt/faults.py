"""Fault model for C08/C09: corruptions of valid wire frames.

A fault is a JSON-able list; ``apply(data, marks, faults)`` returns the corrupted bytes.
``marks`` are the located length / tag / flag / index / type fields reported by the
renderer (pbt.wire).
"""
from hypothesis import strategies as st

FIELD_MODES = ['zero', 'one', 'inc', 'dec', 'double', 'max7f', 'min80', 'ff',
               'uniform', 'small', 'rest', 'rest+1', 'rest-1', 'big', 'neg-small',
               'neg-rest']


def field_value(mode, true, width, arg, rest):
    top = (1 << (8 * width)) - 1
    v = {'zero': 0, 'one': 1, 'inc': true + 1, 'dec': true - 1,
         'double': 2 * true, 'max7f': top >> 1, 'min80': (top >> 1) + 1,
         'ff': top, 'uniform': arg, 'small': arg % 16, 'rest': rest,
         'rest+1': rest + 1, 'rest-1': rest - 1,
         'big': 0x10000000 | (arg & 0xFFFF),
         # small negative numbers when the field is (wrongly) read signed
         'neg-small': top - (arg % 64), 'neg-rest': top + 1 - max(1, rest) + (arg % 5) - 2,
         }[mode]
    return v & top


def apply(data, marks, faults):
    b = bytearray(data)
    fix = False
    for f in faults:
        kind = f[0]
        if kind == 'byte':
            if b:
                b[f[1] % len(b)] = f[2]
        elif kind == 'field':
            if not marks:
                continue
            m = marks[f[1] % len(marks)]
            off, w = m['off'], m['w']
            if off + w > len(b):
                continue
            true = int.from_bytes(b[off:off + w], 'big')
            rest = max(0, len(b) - 1 - (off + w))
            b[off:off + w] = field_value(f[2], true, w, f[3], rest).to_bytes(w, 'big')
            if len(f) > 4 and f[4]:
                fix = True
        elif kind == 'fields':          # one rewrite applied to EVERY field of a kind
            which, mode, arg = f[1], f[2], f[3]
            for m in marks:
                tag = m['kind'] + (':' + m['of'] if 'of' in m else '')
                if tag != which and m['kind'] != which:
                    continue
                off, w = m['off'], m['w']
                if off + w > len(b):
                    continue
                true = int.from_bytes(b[off:off + w], 'big')
                rest = max(0, len(b) - 1 - (off + w))
                b[off:off + w] = field_value(mode, true, w, arg, rest).to_bytes(
                    w, 'big')
            if len(f) > 4 and f[4]:
                fix = True
        elif kind == 'trunc':           # drop n bytes at the end of the payload
            if len(b) > 8:
                n = 1 + f[1] % (len(b) - 8)
                del b[len(b) - 1 - n:len(b) - 1]
                fix = fix or f[2]
        elif kind == 'insert':
            if len(b) > 8:
                at = 7 + f[1] % (len(b) - 7)
                b[at:at] = f[2]
                fix = fix or f[3]
        elif kind == 'delete':
            if len(b) > 9:
                at = 7 + f[1] % (len(b) - 8)
                del b[at:at + 1 + f[2] % 8]
                fix = fix or f[3]
        elif kind == 'cut':
            if b:
                del b[f[1] % len(b):]
        elif kind == 'splice':
            at = f[1] % (len(b) + 1)
            b[at:] = f[2]
    if fix and len(b) >= 8:
        b[3:7] = (len(b) - 8).to_bytes(4, 'big')
        b[-1] = 0xCE
    return bytes(b)


def faults():
    one = st.one_of(
        st.tuples(st.just('byte'), st.integers(0, 10**6),
                  st.one_of(st.integers(0, 255),
                            st.sampled_from([0, 1, 0x7f, 0x80, 0xfe, 0xff, 0xce,
                                             0x41, 0x46, 0x53, 0x54, 0x78]))),
        st.tuples(st.just('field'), st.integers(0, 10**4),
                  st.sampled_from(FIELD_MODES), st.integers(0, 2**64 - 1),
                  st.booleans()),
        st.tuples(st.just('field'), st.integers(0, 10**4),
                  st.sampled_from(FIELD_MODES), st.integers(0, 2**64 - 1),
                  st.booleans()),
        st.tuples(st.just('fields'),
                  st.sampled_from(['len32:F', 'len32:A', 'len32:S', 'len8', 'tag',
                                   'len32']),
                  st.sampled_from(FIELD_MODES), st.integers(0, 2**64 - 1),
                  st.booleans()),
        st.tuples(st.just('trunc'), st.integers(0, 10**4), st.booleans()),
        st.tuples(st.just('trunc'), st.integers(0, 10**4), st.just(True)),
        st.tuples(st.just('insert'), st.integers(0, 10**4), st.binary(min_size=1,
                                                                       max_size=6),
                  st.booleans()),
        st.tuples(st.just('delete'), st.integers(0, 10**4), st.integers(0, 7),
                  st.booleans()),
        st.tuples(st.just('cut'), st.integers(0, 10**4)),
        st.tuples(st.just('splice'), st.integers(0, 10**4), st.binary(max_size=24)),
    ).map(list)
    return st.lists(one, min_size=1, max_size=2)
