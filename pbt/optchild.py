"""Re-run the deterministic sweep components of a property inside a child interpreter
started with other interpreter flags (-O strips assert statements and __debug__ blocks,
-OO also strips docstrings).  Library behaviour relied on by the properties must not be a
side effect of an assert.

child:  python -O -B -m pbt.optchild <PROP> <component> [<component> ...]
parent: make_bulk(...) -> Component bulk function
"""
import json
import os
import subprocess
import sys


def child():
    from pbt import runner
    runner.setup_imports()
    import importlib
    from pbt import canon
    if sys.argv[1] == '--case':
        mod = importlib.import_module('pbt.props.' + sys.argv[2].lower())
        comp = [c for c in mod.COMPONENTS if c.name == sys.argv[3]][0]
        try:
            comp.check(canon.from_json(json.loads(sys.argv[4])))
            print(json.dumps({'ok': True}))
        except runner.Violation as v:
            print(json.dumps({'ok': False, 'bucket': v.bucket, 'msg': v.message}))
        return
    mod = importlib.import_module('pbt.props.' + sys.argv[1].lower())
    out = {'evaluations': 0, 'failures': {}, 'optimize': sys.flags.optimize}
    for name in sys.argv[2:]:
        comp = [c for c in mod.COMPONENTS if c.name == name][0]
        for case in comp.cases('quick', 0, 1):
            out['evaluations'] += 1
            try:
                comp.check(case)
            except runner.Violation as v:
                cur = out['failures'].setdefault(v.bucket, {
                    'count': 0, 'case': canon.to_json(case), 'msg': v.message})
                cur['count'] += 1
    print(json.dumps(out))


def make_bulk(prop, components, flags=('-O', '-OO'), skip_buckets=()):
    def bulk(tier, shard, nshards, rec):
        from pbt import canon
        from pbt.runner import REPO, VERIF
        env = dict(os.environ, PAMQP_REPO=REPO, PYTHONHASHSEED='0',
                   PYTHONDONTWRITEBYTECODE='1')
        env.pop('PYTHONOPTIMIZE', None)
        for flag in flags:
            p = subprocess.run([sys.executable, flag, '-B', '-m', 'pbt.optchild', prop] +
                               list(components), cwd=VERIF, env=env,
                               capture_output=True, text=True, timeout=1800)
            if p.returncode != 0:
                rec.harness_errors.append('interpreter %s child failed:\n%s' %
                                          (flag, p.stderr[-1500:]))
                continue
            r = json.loads(p.stdout.strip().splitlines()[-1])
            rec.count(r['evaluations'], r['evaluations'], 'python' + flag)
            for bucket, f in r['failures'].items():
                if (flag, bucket) in skip_buckets or bucket in skip_buckets:
                    rec.classes['skipped:%s:%s' % (flag, bucket)] += f['count']
                    continue
                for _ in range(f['count']):
                    rec.fail('python%s:%s' % (flag, bucket),
                             {'flag': flag, 'component': components[0],
                              'case': canon.from_json(f['case'])}, f['msg'])
            rec.sample({'flag': flag, 'components': list(components)})
    return bulk


def flagged(prop, inner_check):
    """check function for an interpreter-flags component: a case {'flag', 'component',
    'case'} (replay) is evaluated in a child started with that flag"""
    def check(case):
        if not (isinstance(case, dict) and 'flag' in case):
            return inner_check(case)
        from pbt import canon
        from pbt.runner import REPO, VERIF, HarnessError, Violation
        env = dict(os.environ, PAMQP_REPO=REPO, PYTHONHASHSEED='0',
                   PYTHONDONTWRITEBYTECODE='1')
        env.pop('PYTHONOPTIMIZE', None)
        p = subprocess.run([sys.executable, case['flag'], '-B', '-m', 'pbt.optchild',
                            '--case', prop, case['component'],
                            json.dumps(canon.to_json(case['case']))],
                           cwd=VERIF, env=env, capture_output=True, text=True,
                           timeout=600)
        if p.returncode != 0:
            raise HarnessError('interpreter-flag child failed: ' + p.stderr[-800:])
        r = json.loads(p.stdout.strip().splitlines()[-1])
        if not r['ok']:
            raise Violation('python%s:%s' % (case['flag'], r['bucket']), r['msg'])
    return check


if __name__ == '__main__':
    child()
