"""Re-run the deterministic sweep components of a property inside a child interpreter
started with other interpreter flags (-O strips assert statements and __debug__ blocks,
-OO also strips docstrings).  Library behaviour relied on by the properties must not be a
side effect of an assert.

child:  python -O -B -m pbt.optchild <PROP> <component> [<component> ...]
parent: make_bulk(...) -> Component bulk function
"""
import json
import os
import subprocess
import sys


def child():
    from pbt import runner
    runner.setup_imports()
    import importlib
    from pbt import canon
    if sys.argv[1] == '--case':
        if os.environ.get('VERIF_PRELUDE'):
            run_prelude(os.environ['VERIF_PRELUDE'])
        mod = importlib.import_module('pbt.props.' + sys.argv[2].lower())
        comp = [c for c in mod.COMPONENTS if c.name == sys.argv[3]][0]
        try:
            comp.check(canon.from_json(json.loads(sys.argv[4])))
            print(json.dumps({'ok': True}))
        except runner.Violation as v:
            print(json.dumps({'ok': False, 'bucket': v.bucket, 'msg': v.message}))
        return
    prelude = os.environ.get('VERIF_PRELUDE', '')
    if prelude:
        run_prelude(prelude)
    mod = importlib.import_module('pbt.props.' + sys.argv[1].lower())
    out = {'evaluations': 0, 'failures': {}, 'optimize': sys.flags.optimize}
    for name in sys.argv[2:]:
        comp = [c for c in mod.COMPONENTS if c.name == name][0]
        for case in comp.cases('quick', 0, 1):
            out['evaluations'] += 1
            try:
                comp.check(case)
            except runner.Violation as v:
                cur = out['failures'].setdefault(v.bucket, {
                    'count': 0, 'case': canon.to_json(case), 'msg': v.message})
                cur['count'] += 1
    print(json.dumps(out))


def run_prelude(kind):
    """things an application may legitimately do with the public modules *before* it
    uses the catalogue - none of them may change what the library reports afterwards"""
    from pamqp import base, commands, exceptions
    if kind == 'bases':
        # the accessors called on the abstract bases first
        for cls in (base._AMQData, base.Frame, base.BasicProperties):
            for attempt in (lambda: cls.attributes(), lambda: list(cls()),
                            lambda: len(cls()), lambda: dict(cls()),
                            lambda: 'x' in cls(), lambda: cls().__repr__(),
                            lambda: cls().marshal() if cls is base.Frame else None):
                try:
                    attempt()
                except Exception:
                    pass
    elif kind == 'subclass':
        # application subclasses, in the base orders applications use
        class Mixin:
            pass

        class AppError(Exception):
            pass
        n = 0
        for exc in list(exceptions.CLASS_MAPPING.values()) + [
                exceptions.AMQPSoftError, exceptions.AMQPHardError,
                exceptions.AMQPError]:
            for bases in ((exc,), (Mixin, exc), (exc, Mixin), (AppError, exc),
                          (exc, AppError), (AppError, exc, exceptions.AMQPHardError),
                          (AppError, exc, exceptions.AMQPSoftError)):
                try:
                    type('App%d' % n, bases, {})
                    type('AppCode%d' % n, bases, {'value': 999, 'name': 'APP'})
                except TypeError:
                    pass
                n += 1
        for cls in list(commands.INDEX_MAPPING.values()) + [commands.Basic.Properties]:
            for bases in ((cls,), (Mixin, cls)):
                try:
                    sub_ = type('App' + cls.__name__, bases, {})
                    sub_.attributes()
                except Exception:
                    pass
    elif kind == 'traffic':
        # one frame of every class x every combination of its flag bits, sent and received,
        # plus content headers and a few refused inputs - then the catalogue is checked
        import itertools
        import warnings
        warnings.simplefilter('ignore')
        from pamqp import frame, header
        from pbt import spec_table, strategies as S
        for m in spec_table.METHODS:
            cls = getattr(getattr(commands, m.pyclass), m.pyname)
            bits = [f.name for f in m.fields if f.type == 'bit' and
                    (m.dotted, f.name) not in S._CONSTRAINED]
            for combo in itertools.product([False, True], repeat=len(bits)):
                args = {}
                for f in m.fields:
                    c = S._CONSTRAINED.get((m.dotted, f.name))
                    args[f.name] = c[1] if c and c[0] == 'fixed' else {
                        'octet': 1, 'short': 200, 'long': 1, 'longlong': 1,
                        'bit': False, 'shortstr': 'a', 'longstr': 'b',
                        'table': {'k': 1}}[f.type]
                args.update(dict(zip(bits, combo)))
                try:
                    obj = cls(**args)
                    data = frame.marshal(obj, 1)
                    frame.unmarshal(data)
                    dict(obj), list(obj), len(obj)
                except Exception:
                    pass
        for code in list(exceptions.CLASS_MAPPING) + [200, 0, 999]:
            for cls in (commands.Connection.Close, commands.Channel.Close):
                try:
                    frame.unmarshal(frame.marshal(cls(code, 'text', 0, 0), 1))
                except Exception:
                    pass
        try:
            frame.unmarshal(frame.marshal(header.ContentHeader(
                0, 5, commands.Basic.Properties(app_id='a', headers={'k': 1})), 1))
            frame.unmarshal(b'\x01\x00\x01\x00\x00\x00\x02\x00\x32\xce')
        except Exception:
            pass
    elif kind == 'partial':
        # first use of every class is an *abandoned* iteration / a peek
        import warnings
        warnings.simplefilter('ignore')
        for cls in list(commands.INDEX_MAPPING.values()) + [commands.Basic.Properties]:
            try:
                obj = cls()
                it = iter(obj)
                next(it)
                for _ in obj:
                    break
                any(True for _ in zip(obj, [0]))
            except Exception:
                pass
    elif kind == 'apifuzz':
        # an application exploring the public helper functions of the modules with many
        # distinct arguments (whatever functions the tree under test offers)
        import inspect
        import warnings
        warnings.simplefilter('ignore')
        from pamqp import (body, constants, decode, encode, frame, header,
                           heartbeat)
        samples = list(range(0, 1200)) + ['x', None, -1, 2 ** 40]
        for code in list(exceptions.CLASS_MAPPING) + [200, 0, 999]:
            for cls, extra in ((commands.Connection.Close, (0, 0)),
                               (commands.Channel.Close, (0, 0)),
                               (commands.Basic.Return, ('e', 'r'))):
                try:
                    samples.append(cls(code, 'text', *extra))
                except Exception:
                    pass
        for cls in commands.INDEX_MAPPING.values():
            try:
                samples.append(cls())
            except Exception:
                pass
        samples += [header.ContentHeader(), heartbeat.Heartbeat(),
                    body.ContentBody(b'x'), header.ProtocolHeader()]
        for mod in (exceptions, constants, frame, base, header, body, heartbeat):
            for name, fn in sorted(vars(mod).items()):
                if name.startswith('_') or not inspect.isfunction(fn):
                    continue
                try:
                    params = [p for p in inspect.signature(fn).parameters.values()
                              if p.default is p.empty and
                              p.kind in (p.POSITIONAL_ONLY, p.POSITIONAL_OR_KEYWORD)]
                except (TypeError, ValueError):
                    continue
                if len(params) != 1:
                    continue
                if mod is frame and name in ('unmarshal', 'frame_parts', 'marshal'):
                    continue
                for arg in samples:
                    try:
                        fn(arg)
                    except Exception:
                        pass
    else:
        raise SystemExit('unknown prelude ' + kind)


def make_bulk(prop, components, flags=('-O', '-OO'), skip_buckets=(), preludes=('',),
              envs=({},)):
    def bulk(tier, shard, nshards, rec):
        from pbt import canon
        from pbt.runner import REPO, VERIF
        env = dict(os.environ, PAMQP_REPO=REPO, PYTHONHASHSEED='0',
                   PYTHONDONTWRITEBYTECODE='1')
        env.pop('PYTHONOPTIMIZE', None)
        base_env = dict(env)
        for flag, prelude, extra in [(f, p, e) for f in flags for p in preludes
                                     for e in envs]:
            env = dict(base_env, **extra)
            env['VERIF_PRELUDE'] = prelude
            cmd = [sys.executable] + ([flag] if flag else []) + \
                ['-B', '-m', 'pbt.optchild', prop] + list(components)
            p = subprocess.run(cmd, cwd=VERIF, env=env, capture_output=True,
                               text=True, timeout=1800)
            flag = (flag or 'python') + ('+' + prelude if prelude else '') + \
                ''.join('+%s=%s' % kv for kv in sorted(extra.items()))
            if p.returncode != 0:
                rec.harness_errors.append('interpreter %s child failed:\n%s' %
                                          (flag, p.stderr[-1500:]))
                continue
            r = json.loads(p.stdout.strip().splitlines()[-1])
            rec.count(r['evaluations'], r['evaluations'], 'child ' + flag)
            for bucket, f in r['failures'].items():
                if (flag, bucket) in skip_buckets or bucket in skip_buckets:
                    rec.classes['skipped:%s:%s' % (flag, bucket)] += f['count']
                    continue
                for _ in range(f['count']):
                    rec.fail('child %s:%s' % (flag, bucket),
                             {'flag': flag, 'component': components[0],
                              'case': canon.from_json(f['case'])}, f['msg'])
            rec.sample({'flag': flag, 'components': list(components)})
    return bulk


def flagged(prop, inner_check):
    """check function for an interpreter-flags component: a case {'flag', 'component',
    'case'} (replay) is evaluated in a child started with that flag"""
    def check(case):
        if not (isinstance(case, dict) and 'flag' in case):
            return inner_check(case)
        from pbt import canon
        from pbt.runner import REPO, VERIF, HarnessError, Violation
        env = dict(os.environ, PAMQP_REPO=REPO, PYTHONHASHSEED='0',
                   PYTHONDONTWRITEBYTECODE='1')
        env.pop('PYTHONOPTIMIZE', None)
        parts = case['flag'].split('+')
        flag = parts[0]
        prelude = ''
        for part in parts[1:]:
            if '=' in part:
                k, _, v = part.partition('=')
                env[k] = v
            else:
                prelude = part
        env['VERIF_PRELUDE'] = prelude
        p = subprocess.run([sys.executable] + ([flag] if flag.startswith('-') else []) +
                           ['-B', '-m', 'pbt.optchild', '--case', prop,
                            case['component'],
                            json.dumps(canon.to_json(case['case']))],
                           cwd=VERIF, env=env, capture_output=True, text=True,
                           timeout=600)
        if p.returncode != 0:
            raise HarnessError('interpreter-flag child failed: ' + p.stderr[-800:])
        r = json.loads(p.stdout.strip().splitlines()[-1])
        if not r['ok']:
            raise Violation('child %s:%s' % (case['flag'], r['bucket']), r['msg'])
    return check


if __name__ == '__main__':
    child()
