"""Call descriptors for C16: one public-API call, executable both inside a generated
history and in a pristine interpreter image (pbt.fresh)."""
import copy

from pbt import canon, lib
from pbt.lib import commands, decode, encode, frame, header

PRIM_ENC = ['octet', 'short_uint', 'long_uint', 'long_long_int', 'short_string',
            'long_string', 'timestamp', 'decimal', 'floating_point', 'table_integer',
            'field_table', 'field_array', 'encode_table_value', 'boolean', 'byte_array']
PRIM_DEC = {'octet': decode.octet, 'short_uint': decode.short_uint,
            'long_uint': decode.long_uint, 'long_long_int': decode.long_long_int,
            'short_str': decode.short_str, 'long_str': decode.long_str,
            'timestamp': decode.timestamp, 'decimal': decode.decimal,
            'field_table': decode.field_table, 'field_array': decode.field_array,
            'embedded_value': decode.embedded_value}


def default_object(dotted):
    if dotted == 'ContentHeader':
        return header.ContentHeader()
    if dotted == 'Basic.Properties':
        return commands.Basic.Properties()
    return lib.method_class(dotted)()


def frame_state(obj):
    """(kind, JSON-able attribute state) of a library frame object, or None"""
    from pamqp import base
    if isinstance(obj, header.ContentHeader):
        p = obj.properties
        return 'ContentHeader', {
            'body_size': obj.body_size,
            'props': {n: copy.deepcopy(getattr(p, n, None)) for n in p.__slots__}}
    if isinstance(obj, base.Frame):
        return type(obj).__qualname__, {n: copy.deepcopy(getattr(obj, n, None))
                                        for n in obj.__slots__}
    return None


def from_state(kind, state):
    obj = default_object(kind)
    if kind == 'ContentHeader':
        obj.body_size = state['body_size']
        for n, v in state['props'].items():
            setattr(obj.properties, n, v)
    else:
        for n, v in state.items():
            setattr(obj, n, v)
    return obj


def execute(call, keep=None, target=None):
    """-> canonical, printable result.  `keep`, if given, receives library-created
    objects (for the aliasing / mutation rules of the history)."""
    kind = call[0]
    try:
        if kind == 'construct_default':
            obj = default_object(call[1])
            if keep is not None:
                keep.append(obj)
            return repr(('ok', lib.dump_frame(obj)))
        if kind == 'construct':
            obj = lib.make_frame(copy.deepcopy(call[1]))
            if keep is not None:
                keep.append(obj)
            return repr(('ok', lib.dump_frame(obj)))
        if kind == 'marshal':
            case = copy.deepcopy(call[1])
            return repr(('ok', frame.marshal(lib.make_frame(case), case['ch'])))
        if kind == 'marshal_state':
            # `target` is the long-lived object of a history; a fresh interpreter
            # rebuilds an object with the same attribute state
            obj = target if target is not None else from_state(call[1],
                                                               copy.deepcopy(call[2]))
            return repr(('ok', frame.marshal(obj, call[3])))
        if kind == 'unmarshal':
            n, ch, obj = frame.unmarshal(call[1])
            if keep is not None:
                keep.append(obj)
            return repr(('ok', n, ch, lib.dump_frame(obj)))
        if kind == 'prim_encode':
            return repr(('ok', getattr(encode, call[1])(copy.deepcopy(call[2]))))
        if kind == 'prim_decode':
            n, v = PRIM_DEC[call[1]](call[2])
            if keep is not None and isinstance(v, (dict, list)):
                keep.append(v)
            return repr(('ok', n, canon.canon(v)))
    except Exception as e:
        return repr(('raised', type(e).__name__))
    raise AssertionError(kind)
