"""Call descriptors for C16: one public-API call, executable both inside a generated
history and in a pristine interpreter image (pbt.fresh)."""
import copy

from pbt import canon, lib
from pbt.lib import commands, decode, encode, frame, header

PRIM_ENC = ['octet', 'short_uint', 'long_uint', 'long_long_int', 'short_string',
            'long_string', 'timestamp', 'decimal', 'floating_point', 'table_integer',
            'field_table', 'field_array', 'encode_table_value', 'boolean', 'byte_array']
PRIM_DEC = {'octet': decode.octet, 'short_uint': decode.short_uint,
            'long_uint': decode.long_uint, 'long_long_int': decode.long_long_int,
            'short_str': decode.short_str, 'long_str': decode.long_str,
            'timestamp': decode.timestamp, 'decimal': decode.decimal,
            'field_table': decode.field_table, 'field_array': decode.field_array,
            'embedded_value': decode.embedded_value}


def default_object(dotted):
    if dotted == 'ContentHeader':
        return header.ContentHeader()
    if dotted == 'Basic.Properties':
        return commands.Basic.Properties()
    return lib.method_class(dotted)()


def execute(call, keep=None):
    """-> canonical, printable result.  `keep`, if given, receives library-created
    objects (for the aliasing / mutation rules of the history)."""
    kind = call[0]
    try:
        if kind == 'construct_default':
            obj = default_object(call[1])
            if keep is not None:
                keep.append(obj)
            return repr(('ok', lib.dump_frame(obj)))
        if kind == 'construct':
            obj = lib.make_frame(copy.deepcopy(call[1]))
            if keep is not None:
                keep.append(obj)
            return repr(('ok', lib.dump_frame(obj)))
        if kind == 'marshal':
            case = copy.deepcopy(call[1])
            return repr(('ok', frame.marshal(lib.make_frame(case), case['ch'])))
        if kind == 'unmarshal':
            n, ch, obj = frame.unmarshal(call[1])
            if keep is not None:
                keep.append(obj)
            return repr(('ok', n, ch, lib.dump_frame(obj)))
        if kind == 'prim_encode':
            return repr(('ok', getattr(encode, call[1])(copy.deepcopy(call[2]))))
        if kind == 'prim_decode':
            n, v = PRIM_DEC[call[1]](call[2])
            if keep is not None and isinstance(v, (dict, list)):
                keep.append(v)
            return repr(('ok', n, canon.canon(v)))
    except Exception as e:
        return repr(('raised', type(e).__name__))
    raise AssertionError(kind)
