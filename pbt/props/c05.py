"""C05 - decoder accepts every well-formed wire frame a peer may send."""
from hypothesis import strategies as st

from pbt import canon, refcodec, spec_table, strategies as S, wire
from pbt.lib import body, call, decode, frame, header, heartbeat, method_class
from pbt.props import c16
from pbt import entry
from pbt.runner import Component, HarnessError, Violation, lib_site

PROPERTY_ID = 'C05'
LEVEL = 'exploration'
DESIGN_REF = 'DESIGN.md section 5, C05; Appendix C'
TECHNIQUE = ('grammar-based generation of wire frames as tagged trees (all 19 type tags, '
             'non-minimal widths, unsorted keys, non-UTF-8 strings, extra flag words) '
             'decoded by the library and compared with independently derived expected '
             'values; reference decoder as harness self-check')
RULE = ('cases are tagged wire trees rendered with the reference primitives: field values / '
        'tables over all 19 tags each over its full value range (L below 2^63; t any '
        'octet), chains to depth 64, all 64 methods with arguments of their wire types '
        '(incl. names, tickets and deprecated fields the send-side validators refuse, '
        'non-UTF-8 long strings), content headers with any of the 14 properties, unused '
        'flag bit 1, continuation bit + extra flag words, delivery modes outside {1,2}, '
        'timestamps on both sides of 2^32 and of year 9999; bodies, heartbeats, protocol '
        'headers. Sweep: every 8-bit and 16-bit value of tags t,b,B,s,u. Oracle: decode '
        'succeeds, consumed == len, channel/class as rendered, every value type-exactly '
        'equal to the expected value derived from the tree (ms timestamps within 500 us; '
        'instants beyond 9999-12-31T23:59:59 must be refused). Non-trivial = contains a '
        'tag the encoder never emits (B d L 00), a non-minimal integer width, unsorted '
        'keys, a non-UTF-8 long string, a validator-refused value, or a second flag word; '
        'distinct = digest of the case.')
ASSUMPTIONS = [
    'tag semantics are the ones the library documents (Appendix C): L read signed and '
    'generated below 2^63, t true iff non-zero, S -> str if UTF-8 else bytes, T above '
    '2^32-1 read as milliseconds with a 500 us tolerance for its float division',
    'tables with duplicate keys are not generated (illegal per the specification)',
    'expected values are derived from the generated tree; the reference decoder is run '
    'on every case as a self-check of the harness',
]
LEVEL_TEXT = ('Generated-input search on the decoder side with an outside oracle: detects '
              'asymmetric decoder defects that round trips of encoder output cannot reach. '
              'Exploration, not proof.')
LEVEL_NOTE = ('Trusted: pbt/wire.py rendering + expected-value derivation, cross-checked by '
              'pbt/refcodec.py on every case; Hypothesis.')


def _decode(fn, data, must_refuse, what):
    try:
        res = fn(data)
    except Exception as e:
        if must_refuse:
            return None
        raise Violation('rejects:%s:%s@%s' % (what, type(e).__name__, lib_site(e)),
                        'well-formed %s rejected with %s: %s' %
                        (what, type(e).__name__, canon.short(str(e), 200)))
    if must_refuse:
        raise Violation('accepts-overflow-timestamp',
                        'timestamp beyond year 9999 was decoded as %s' %
                        canon.short(res, 200))
    return res


def check_value(case):
    v = case['v']
    out = wire.Out()
    if case['pos'] == 'table':
        wire.render_table(v, out)
        exp = wire.expect_table(v)
        fn, ref = decode.field_table, refcodec.dec_table(bytes(out.buf), 0)
    else:
        wire.render_value(v, out)
        exp = wire.expect_value(v)
        fn, ref = decode.embedded_value, refcodec.dec_value(bytes(out.buf), 0)
    data = bytes(out.buf)
    if ref[1] != len(data) or wire._same(ref[0], exp):
        raise HarnessError('reference decoder disagrees with expected value: %r' %
                           wire._same(ref[0], exp))
    res = _decode(fn, data, wire.has_overflow_ts(exp), 'value')
    if res is None:
        return ['refused-overflow']
    n, got = res
    if n != len(data):
        raise Violation('consumed:value', 'consumed %r of %d bytes' % (n, len(data)))
    d = refcodec.agree(exp, got)
    if d:
        raise Violation('value:' + d.kind, d)
    # the same bytes through the library's other decode entries (mapping tables, by_type)
    if case['pos'] == 'table':
        entry.decode_entries('field_table', data, (n, got))
    else:
        entry.table_mapping_entry(data, (n, got))


def check_frame(case):
    data, marks, expected = wire.render_frame(case)
    err = wire.selfcheck_frame(data, expected)
    if err:
        raise HarnessError('wire renderer / reference decoder mismatch: ' + err)
    kind, ch, detail = expected
    must_refuse = kind == 'header' and wire.has_overflow_ts(detail[2]) or \
        kind == 'method' and wire.has_overflow_ts(detail[1])
    res = _decode(frame.unmarshal, data, must_refuse, kind)
    if res is None:
        return ['refused-overflow']
    n, rch, obj = res
    if n != len(data):
        raise Violation('consumed:' + kind, 'consumed %r of %d' % (n, len(data)))
    if rch != ch:
        raise Violation('channel', 'channel %r decoded as %r' % (ch, rch))
    if kind == 'method':
        dotted, exp = detail
        if type(obj) is not method_class(dotted):
            raise Violation('class', '%s decoded as %s' %
                            (dotted, type(obj).__name__))
        for name, want in exp.items():
            d = refcodec.agree(want, getattr(obj, name, '<missing>'),
                               '%s.%s' % (dotted, name))
            if d:
                t = [f.type for f in spec_table.BY_NAME[dotted].fields
                     if f.name == name][0]
                raise Violation('slot:%s:%s' % (t, d.kind), d)
    elif kind == 'header':
        weight, size, exp, nwords = detail
        if type(obj) is not header.ContentHeader:
            raise Violation('class', 'header decoded as %s' % type(obj).__name__)
        if (obj.class_id, obj.weight, obj.body_size) != (60, weight, size):
            raise Violation('header-fields', 'class/weight/size %r, expected %r' % (
                (obj.class_id, obj.weight, obj.body_size), (60, weight, size)))
        for name, _, _, _ in spec_table.PROPERTIES:
            got = getattr(obj.properties, name, '<missing>')
            if name in exp:
                d = refcodec.agree(exp[name], got, name)
                if d:
                    raise Violation('prop:%s:%s' % (name, d.kind), d)
            else:
                want = '' if name == 'cluster_id' else None
                if got != want:
                    raise Violation('prop-unset:' + name, 'absent property %s '
                                    'decoded as %r' % (name, got))
    elif kind == 'body':
        if type(obj) is not body.ContentBody or obj.value != detail or \
                type(obj.value) is not bytes:
            raise Violation('body', 'body decoded wrongly')
    elif kind == 'heartbeat':
        if type(obj) is not heartbeat.Heartbeat:
            raise Violation('heartbeat', 'decoded as %s' % type(obj).__name__)
    else:
        if type(obj) is not header.ProtocolHeader or \
                (obj.major_version, obj.minor_version, obj.revision) != \
                tuple(detail):
            raise Violation('protocol', 'protocol header decoded wrongly')


def _features(case):
    f = set()
    kind = case.get('kind')

    def table(pairs):
        tags = wire.table_tags(pairs)
        if set(tags) & wire.NEVER_EMITTED:
            f.add('never-emitted-tag')
        if any(wire.nonminimal(x) for _, x in pairs):
            f.add('non-minimal-int')
        if wire.unsorted_keys(pairs):
            f.add('unsorted-keys')
        if any(isinstance(wire.expect_value(['S', b]), bytes)
               for b in _raw_strings(pairs)):
            f.add('non-utf8-longstr')
    if kind is None:
        v = case['v']
        table(v if case['pos'] == 'table' else [['', v]])
    elif kind == 'method':
        m = spec_table.BY_NAME[case['cls']]
        for fld in m.fields:
            v = case['args'][fld.name]
            c = S._CONSTRAINED.get((m.dotted, fld.name))
            if fld.type == 'table':
                table(v)
            elif fld.type == 'longstr' and isinstance(
                    wire.expect_value(['S', v]), bytes):
                f.add('non-utf8-longstr')
            elif c and c[0] == 'fixed' and v != c[1]:
                f.add('validator-refused')
            elif c and c[0] == 'name' and not (
                    set(v) <= spec_table.NAME_ALPHABET and len(v) <= c[1]):
                f.add('validator-refused')
    elif kind == 'header':
        if case['extra_words']:
            f.add('second-flag-word')
        if case['unused_bit']:
            f.add('unused-flag-bit')
        if case['props'].get('delivery_mode', 1) not in (1, 2) or \
                case['props'].get('cluster_id', '') != '':
            f.add('validator-refused')
        if 'headers' in case['props']:
            table(case['props']['headers'])
        if case['props'].get('timestamp', 0) > 0xFFFFFFFF:
            f.add('ms-timestamp')
    return f


def _raw_strings(pairs):
    for _, x in pairs:
        yield from _raw_in(x)


def _raw_in(v):
    if v[0] == 'S':
        yield v[1]
    elif v[0] == 'A':
        for x in v[1]:
            yield from _raw_in(x)
    elif v[0] == 'F':
        for _, x in v[1]:
            yield from _raw_in(x)


NT = {'never-emitted-tag', 'non-minimal-int', 'unsorted-keys', 'non-utf8-longstr',
      'validator-refused', 'second-flag-word'}


def nontrivial(case):
    return bool(_features(case) & NT)


def classes(case):
    out = sorted(_features(case))
    if 'v' in case and case.get('pos') == 'value':
        d = wire.tree_depth(case['v'])
        out.append('depth<=8' if d <= 8 else 'depth<=32' if d <= 32 else 'depth>32')
    if case.get('kind'):
        out.append('kind=' + case['kind'])
    else:
        tags = wire.table_tags(case['v']) if case['pos'] == 'table' else \
            wire.tags_of(case['v'])
        out.extend('tag=' + repr(t)[1:-1] for t in set(tags))
    return out


def value_cases(tier):
    return st.one_of(
        st.fixed_dictionaries({'pos': st.just('value'), 'v': wire.wire_values(12)}),
        st.fixed_dictionaries({'pos': st.just('table'), 'v': wire.wire_tables(10)}))


def deep_cases(tier):
    return st.fixed_dictionaries({'pos': st.just('value'),
                                  'v': wire.deep_wire_values(64)})


def chain_sweep(tier, shard, nshards):
    """every nesting depth 1..64 x chain pattern x a few leaves, bare and inside a method
    table / a headers property"""
    i = 0
    for depth in range(1, 65):
        for pattern in ('A', 'F', 'AF', 'FA'):
            for leaf in (['V'], ['S', b'x'], ['b', -1]):
                v = wire.chain(depth, pattern, leaf)
                for where in ('value', 'method', 'header'):
                    if i % nshards == shard:
                        if where == 'value':
                            yield {'pos': 'value', 'v': v}
                        elif where == 'method':
                            yield {'kind': 'method', 'cls': 'Queue.Declare', 'ch': 1,
                                   'args': {'ticket': 0, 'queue': 'q', 'passive': False,
                                            'durable': True, 'exclusive': False,
                                            'auto_delete': False, 'nowait': False,
                                            'arguments': [['deep', v]]}}
                        else:
                            yield {'kind': 'header', 'ch': 1, 'body_size': 1,
                                   'weight': 0, 'unused_bit': False,
                                   'extra_words': [],
                                   'props': {'headers': [['deep', v]]}}
                    i += 1


def homogeneous_sweep(tier, shard, nshards):
    """arrays of 1..40 items of one numeric tag holding the tag's boundary values"""
    vals = {'b': [-128, -1, 0, 127], 'B': [0, 127, 128, 255],
            's': [-32768, -1, 255, 32767], 'u': [0, 32767, 32768, 65535],
            'I': [-2 ** 31, -1, 65536, 2 ** 31 - 1],
            'i': [0, 2 ** 31 - 1, 2 ** 31, 3000000000, 2 ** 32 - 2, 2 ** 32 - 1],
            'l': [-2 ** 63, -1, 2 ** 32, 2 ** 63 - 1], 'L': [0, 2 ** 32, 2 ** 63 - 1],
            't': [0, 1, 2, 255], 'f': [0.0, -1.5, 3.0e38], 'd': [0.1, -1e300, 5e-324],
            'T': [0, 2 ** 32 - 1, 2 ** 32, 1700000000000]}
    i = 0
    for tag, vs in vals.items():
        for n in (1, 2, 7, 8, 9, 15, 16, 17, 40):
            items = [[tag, vs[k % len(vs)]] for k in range(n)]
            for where in ('value', 'in-table'):
                if i % nshards == shard:
                    yield {'pos': 'value', 'v': ['A', items]} if where == 'value' else \
                        {'pos': 'table', 'v': [['arr', ['A', items]], ['z', ['V']]]}
                i += 1


def check_any(case):
    return check_frame(case) if 'kind' in case else check_value(case)


def tag_sweep(tier, shard, nshards):
    i = 0
    for tag, lo, hi in (('t', 0, 255), ('b', -128, 127), ('B', 0, 255),
                        ('s', -32768, 32767), ('u', 0, 65535)):
        for n in range(lo, hi + 1):
            if i % nshards == shard:
                yield {'pos': 'value', 'v': [tag, n]}
            i += 1
    for tag, w, signed in (('I', 4, True), ('i', 4, False), ('l', 8, True),
                           ('L', 8, True)):
        lo = -(1 << (8 * w - 1)) if signed else 0
        hi = (1 << (8 * w - 1)) - 1 if signed else (1 << 8 * w) - 1
        if tag == 'L':
            lo = 0
        for n in sorted({lo, lo + 1, -1, 0, 1, 127, 128, 255, 256, 32767, 32768,
                         65535, 65536, 2**31 - 1, 2**31, 2**32 - 1, 2**32,
                         hi - 1, hi}):
            if lo <= n <= hi:
                if i % nshards == shard:
                    yield {'pos': 'value', 'v': [tag, n]}
                i += 1
    for n in (0, 1, 2**32 - 1, 2**32, wire.MAXDT * 1000, wire.MAXDT * 1000 + 999,
              (wire.MAXDT + 1) * 1000, 2**64 - 1):
        if i % nshards == shard:
            yield {'pos': 'value', 'v': ['T', n]}
        i += 1
    # every binary and decimal order of magnitude of the wide fields (three points each)
    for tag, w, signed in (('I', 4, True), ('i', 4, False), ('l', 8, True),
                           ('L', 8, True), ('T', 8, False)):
        top_bits = 8 * w - (1 if signed else 0)
        values = set()
        for bits in range(8, top_bits + 1):
            lo_b, hi_b = 1 << (bits - 1), (1 << bits) - 1
            values.update([lo_b, (lo_b + hi_b) // 2, hi_b])
        for e in range(2, 20):
            for m in (1000, 2500, 9999):
                values.update([10 ** e * m // 1000 - 1, 10 ** e * m // 1000])
        for n in sorted(values):
            for v in ([n, -n] if signed and tag != 'L' else [n]):
                if -(1 << top_bits) <= v < (1 << top_bits) and \
                        (tag != 'L' or v >= 0):
                    if i % nshards == shard:
                        yield {'pos': 'value' if n % 2 else 'table',
                               'v': [tag, v] if n % 2 else [['k', [tag, v]]]}
                    i += 1


def catalogue_cases(tier, shard, nshards):
    return wire.catalogue_frames()[shard::nshards]


COMPONENTS = [
    Component('catalogue', check_frame, cases=catalogue_cases, nontrivial=nontrivial,
              classes=classes, shards={'quick': 4, 'thorough': 4}, exhaustive=True,
              describe='one wire frame per method class with all 19 tags in every '
                       'table argument; two content headers; body; heartbeat; protocol'),
    Component('dictionary', check_frame,
              cases=lambda tier, shard, nshards: wire.dictionary_frames()[shard::nshards],
              nontrivial=lambda c: True, classes=lambda c: ['kind=' + c['kind']],
              describe='every identifier-like literal harvested from the tree under test '
                       'as a table key next to a value of every type tag, and as a '
                       'short-string value (auto-dictionary)'),
    Component('first-use-threads', c16.check_saturation,
              cases=c16.first_use_sweep(['decode-tables', 'decode-decimals',
                                         'decode-frames', 'decode-after-refusal']),
              distinct_by_construction=True,
              describe='well-formed tables, decimals and frames decoded as the very first '
                       'calls of a pristine process by 2-3 threads, one of them 0..59 '
                       'traced lines ahead; results vs a fresh interpreter'),
    Component('homogeneous-arrays', check_value, cases=homogeneous_sweep,
              nontrivial=lambda c: True, shards={'quick': 4, 'thorough': 4},
              describe='arrays of 1..40 items of one numeric tag holding that tag\'s '
                       'boundary values (what a packed-array fast path would see)'),
    Component('chains', check_any, cases=chain_sweep,
              nontrivial=lambda c: True, exhaustive=True,
              classes=lambda c: ['where=' + c.get('kind', 'value')],
              describe='container chains of every depth 1..64 (A, F, alternating), bare '
                       'and inside a method table / the headers property'),
    Component('tag-ranges', check_value, cases=tag_sweep, nontrivial=nontrivial,
              classes=classes, shards={'quick': 8, 'thorough': 8},
              describe='every 8/16-bit value of tags t b B s u; boundaries and every binary / '
                       'decimal order of magnitude of I i l L T'),
    Component('values', check_value, strategy=value_cases, nontrivial=nontrivial,
              classes=classes, budget={'quick': 16000, 'thorough': 480000},
              describe='wire values and tables over all 19 tags'),
    Component('deep', check_value, strategy=deep_cases, nontrivial=nontrivial,
              classes=classes, budget={'quick': 3200, 'thorough': 64000},
              describe='chains of arrays/tables up to depth 64'),
    Component('frames', check_frame, strategy=lambda tier: wire.wire_frames(),
              nontrivial=nontrivial, classes=classes,
              budget={'quick': 16000, 'thorough': 480000},
              describe='wire frames of all kinds'),
]
