"""C17 - reply-code exceptions and protocol constants match the specification."""
import inspect

from pbt import optchild, spec_table
from pbt.lib import exceptions, heartbeat
from pbt.runner import Component, Violation
from pamqp import constants

PROPERTY_ID = 'C17'
LEVEL = 'exploration'
EXHAUSTIVE = True
DESIGN_REF = 'DESIGN.md section 5, C17; Appendix B'
TECHNIQUE = ('exhaustive enumeration of all 18 reply codes x facets and all protocol '
             'constants against a transcribed table')
RULE = ('finite domain, enumerated completely: for each of the 18 reply codes the facets '
        '{mapped, value, name, base class (soft/hard), catchable as AMQPError and '
        'PAMQPException, raisable, unique owner of the code}; for the mapping {keys, '
        'distinct classes, soft/hard bases unrelated}; for each listed constant its value '
        'and type. Every obligation is distinct by construction and non-trivial.')
ASSUMPTIONS = ['DESIGN.md Appendix B is a faithful transcription of the AMQP 0-9-1 reply '
               'codes and constants']
LEVEL_TEXT = ('Finite domain enumerated completely against the transcribed table '
              '(exhaustive=true); the trusted base is the transcription.')
LEVEL_NOTE = 'Trusted: the transcribed reply-code and constant table.'

CODES = dict(spec_table.SOFT_ERRORS)
CODES.update(spec_table.HARD_ERRORS)


def check(case):
    facet = case['facet']
    if case['kind'] == 'const':
        name = case['name']
        want = spec_table.CONSTANTS[name]
        got = getattr(constants, name, '<missing>')
        if got != want or type(got) is not type(want):
            raise Violation('constant:' + name, 'constants.%s == %r, protocol %r' %
                            (name, got, want))
        if name == 'FRAME_END_CHAR' and got != bytes([constants.FRAME_END]):
            raise Violation('constant:FRAME_END_CHAR', 'FRAME_END_CHAR != FRAME_END')
        if name == 'FRAME_HEARTBEAT' and heartbeat.Heartbeat.value != \
                b'\x08\x00\x00\x00\x00\x00\x00\xce':
            raise Violation('constant:heartbeat', 'Heartbeat.value == %r' %
                            (heartbeat.Heartbeat.value,))
        return
    mapping = exceptions.CLASS_MAPPING
    if case['kind'] == 'mapping':
        if facet == 'keys' and set(mapping) != set(CODES):
            raise Violation('mapping-keys', 'CLASS_MAPPING keys %r' % sorted(mapping))
        if facet == 'distinct' and len(set(mapping.values())) != len(mapping):
            raise Violation('mapping-distinct', 'a class serves two codes')
        if facet == 'bases':
            s, h = exceptions.AMQPSoftError, exceptions.AMQPHardError
            if issubclass(s, h) or issubclass(h, s):
                raise Violation('bases-related', 'soft and hard bases are related')
            for b in (s, h):
                if not issubclass(b, exceptions.AMQPError):
                    raise Violation('bases', '%s is not an AMQPError' % b.__name__)
            if not issubclass(exceptions.AMQPError, exceptions.PAMQPException) or \
                    not issubclass(exceptions.PAMQPException, Exception):
                raise Violation('bases', 'AMQPError / PAMQPException chain broken')
            if not issubclass(exceptions.UnmarshalingException,
                              exceptions.PAMQPException):
                raise Violation('bases', 'UnmarshalingException base')
        return
    code = case['code']
    cls = mapping.get(code)
    if cls is None:
        raise Violation('unmapped', 'reply code %d has no exception class' % code)
    soft = code in spec_table.SOFT_ERRORS
    if facet == 'value' and (cls.value != code or type(cls.value) is not int):
        raise Violation('value', '%s.value == %r for code %d' %
                        (cls.__name__, cls.value, code))
    if facet == 'name' and cls.name != CODES[code]:
        raise Violation('name', '%s.name == %r, spec %r' %
                        (cls.__name__, cls.name, CODES[code]))
    if facet == 'base':
        want = exceptions.AMQPSoftError if soft else exceptions.AMQPHardError
        other = exceptions.AMQPHardError if soft else exceptions.AMQPSoftError
        if not issubclass(cls, want) or issubclass(cls, other):
            raise Violation('base', '%s (code %d) bases %r' %
                            (cls.__name__, code, cls.__mro__))
    if facet == 'catchable':
        try:
            raise cls('x')
        except exceptions.PAMQPException as e:
            if not isinstance(e, exceptions.AMQPError) or type(e) is not cls:
                raise Violation('catchable', '%s not an AMQPError' % cls.__name__)
        except BaseException:
            raise Violation('catchable', '%s is not catchable as PAMQPException'
                            % cls.__name__)
    if facet == 'unique':
        owners = [n for n, o in vars(exceptions).items()
                  if inspect.isclass(o) and vars(o).get('value') == code]
        if len(owners) != 1:
            raise Violation('unique', 'code %d claimed by %r' % (code, owners))


def cases(tier, shard, nshards):
    out = [{'kind': 'mapping', 'facet': f} for f in ('keys', 'distinct', 'bases')]
    for code in sorted(CODES):
        for f in ('value', 'name', 'base', 'catchable', 'unique'):
            out.append({'kind': 'code', 'code': code, 'facet': f})
    for name in sorted(spec_table.CONSTANTS):
        out.append({'kind': 'const', 'name': name, 'facet': 'value'})
    return out[shard::nshards]


COMPONENTS = [
    Component('table', check, cases=cases,
              classes=lambda c: ['kind=' + c['kind']],
              distinct_by_construction=True, exhaustive=True,
              shards={'quick': 1, 'thorough': 1},
              describe='18 reply codes x 5 facets, mapping facets, 11 constants'),
    Component('interpreter-flags', optchild.flagged('C17', check),
              bulk=optchild.make_bulk('C17', ['table']),
              distinct_by_construction=True, exhaustive=True,
              shards={'quick': 1, 'thorough': 1},
              describe='the same table re-checked in child interpreters started with -O '
                       'and -OO (asserts / docstrings stripped)'),
    Component('preludes', optchild.flagged('C17', check),
              bulk=optchild.make_bulk('C17', ['table'], flags=('', '-bb'),
                                      preludes=('bases', 'subclass', 'partial',
                                                'apifuzz', 'traffic'),
                                      envs=({}, {'LANG': 'de_DE.UTF-8', 'LC_ALL': ''}, {'LC_ALL': 'pt_BR.UTF-8'},
                                            {'LANG': 'tr_TR.UTF-8', 'LC_MESSAGES': 'ja_JP.UTF-8'})),
              distinct_by_construction=True, exhaustive=True,
              shards={'quick': 1, 'thorough': 1},
              describe='the same sweep in child interpreters after an application-style '
                       'prelude (accessors on the abstract bases first; application '
                       'subclasses; an abandoned first iteration of every class; the '
                       'public helper functions of every module called with 1200 '
                       'distinct integers and with frames of every class; ordinary '
                       'traffic through every class and flag combination), '
                       'also with -bb and under foreign locale environments'),
]
