"""C10 - encoders never emit bytes that decode to a different value."""
import datetime
import decimal
import time

from hypothesis import strategies as st

from pbt import canon, refcodec, spec_table, strategies as S
from pbt.canon import Opaque
from pbt.lib import (body, commands, decode, encode, frame, header, make_method,
                     method_class)
from pbt.runner import Component, Violation

PROPERTY_ID = 'C10'
LEVEL = 'exploration'
DESIGN_REF = 'DESIGN.md section 5, C10'
TECHNIQUE = ('property-based testing with "any Python value" generators: encode-or-raise, '
             'then decode and compare with the input under the documented normalisation '
             '(round-trip oracle that tolerates refusal, never alteration)')
RULE = ('cases: (prim) each primitive encoder paired with its decoder x a wide value union '
        '(ints around every width limit and up to 2^200, bools, floats finite / non-finite '
        '/ denormal / huge, Decimals any sign, exponent -400..400, 1..40 digits, NaN / sNaN '
        '/ Infinity, datetimes year 1..9999 naive / aware with microseconds, dates, '
        'struct_time incl. pre-epoch and out-of-range fields, str oversize / lone '
        'surrogates, bytes, bytearray, memoryview, None, tuples, sets, ranges, dicts with '
        'non-str / over-long / mixed keys, complex, arbitrary objects); (table) such a value '
        'at a leaf of a nested table / array; (slot) a valid method frame, content header, '
        'body or protocol header with exactly one slot / property / channel / body size / '
        'version octet replaced by such a value (set after construction, and through the '
        'constructor). Oracle: encoding raises (any exception) or returns bytes; if the '
        'bytes decode, decoded == N10(input): Python == except single-precision floats in '
        'tables, whole-second timestamps (microsecond == 0 and |decoded - input| < 1 s), '
        'timestamps after 2106-02-07T06:28:15Z excluded, keys over 128 chars excluded, '
        'falsy table-slot value == {}, "" / None property == unset; all untouched slots '
        'must come back equal. Bytes that fail to decode are counted, not judged. '
        'Non-trivial = the substituted value is outside the nominal type or range of its '
        'position; distinct = digest of the case.')
ASSUMPTIONS = [
    'documented exceptions are exactly those listed in the property; the content-header '
    'weight field ("unused, must be 0") is always 0 and outside the domain',
    'encoders are called under the default decimal context',
    'for values given through a constructor the comparison is against the constructed '
    "attribute (constructors document 'x or default' normalisation)",
]
LEVEL_TEXT = ('Generated-input search for silent alteration over a deliberately unsound-'
              'for-the-API input domain ("any Python value"); the oracle accepts refusal '
              'and rejects only bytes that decode to something else. Exploration.')
LEVEL_NOTE = ('Trusted: the normalisation N10 written from the property text; integer civil '
              'arithmetic for instants; Hypothesis.')

MAX32 = 0xFFFFFFFF

# ---------------------------------------------------------------- wide values

WIDTH_EDGES = sorted({e + d for e in (0, 2**7, 2**8, 2**15, 2**16, 2**31, 2**32, 2**63,
                                      2**64, -2**7, -2**15, -2**31, -2**63, -2**64)
                      for d in (-2, -1, 0, 1, 2)})


def wide_ints():
    return st.one_of(st.sampled_from(WIDTH_EDGES), st.integers(-300, 70000),
                     st.integers(-2**70, 2**70), st.integers(-2**200, 2**200))


def wide_floats():
    return st.one_of(st.floats(allow_nan=False), st.floats(width=32, allow_nan=False),
                     st.sampled_from([float('nan'), float('inf'), float('-inf'), 1e39,
                                      -1e39, 3.5e38, 5e-324, 1e-46, 2.0**63, 1.5,
                                      -0.0, 255.0, 1.0]))


def wide_decimals():
    def build(sign, digits, exp):
        return decimal.Decimal((sign, tuple(digits), exp))
    finite = st.builds(build, st.integers(0, 1),
                       st.one_of(st.lists(st.integers(0, 9), min_size=1, max_size=10),
                                 st.lists(st.integers(0, 9), min_size=1, max_size=40)),
                       st.one_of(st.integers(-12, 4), st.integers(-400, 400),
                                 st.sampled_from([-255, -256, -257, -7, -8, -28, -29, 0])))
    special = st.sampled_from([decimal.Decimal(x) for x in (
        'NaN', 'sNaN', 'Infinity', '-Infinity', '-0', '0E-300', '1E-7', '-1.5',
        '2147483647', '2147483648', '-2147483648', '-2147483649', '21474836.48',
        '1E+10', '0.30000000000000000000000000001', '1E-255', '1E-256')])
    return st.one_of(finite, finite, special)


def wide_datetimes():
    def build(y, mo, d, h, mi, s, us, off):
        tz = None if off is None else datetime.timezone(
            datetime.timedelta(minutes=off))
        return datetime.datetime(y, mo, d, h, mi, s, us, tzinfo=tz)
    years = st.one_of(st.integers(1, 9999), st.integers(1965, 1975),
                      st.integers(2100, 2110), st.sampled_from([1, 1969, 1970, 2106,
                                                                9999]))
    return st.builds(build, years, st.integers(1, 12), st.integers(1, 28),
                     st.integers(0, 23), st.integers(0, 59), st.integers(0, 59),
                     st.one_of(st.just(0), st.integers(0, 999999)),
                     st.one_of(st.none(), st.just(0), st.integers(-1439, 1439)))


def wide_struct_times():
    def build(y, mo, d, h, mi, s):
        return time.struct_time((y, mo, d, h, mi, s, 0, 1, 0))
    return st.builds(build, st.one_of(st.integers(1960, 2110), st.integers(1, 9999)),
                     st.integers(1, 12), st.integers(0, 40), st.integers(-2, 30),
                     st.integers(-5, 70), st.integers(-5, 70))


def wide_strs():
    return st.one_of(
        S.texts(20), S.surrogate_strs(),
        st.builds(lambda c, n: c * n, st.sampled_from('a\xe9€'),
                  st.sampled_from([127, 128, 129, 255, 256, 257, 300, 65536])),
        st.sampled_from(['\ud800', 'a\udfffb', '', '0', '\x00']),
        st.text(st.characters(), max_size=8))


def wide_keys():
    return st.one_of(
        S.table_keys(), st.sampled_from(['k' * 128, 'k' * 129, '€' * 86, '€' * 85,
                                         'k' * 255, 'k' * 256, '\ud800']),
        st.integers(-2, 300), st.binary(max_size=3), st.none(),
        st.tuples(st.text(max_size=2)), st.floats(allow_nan=False), st.booleans())


def scalars():
    return st.one_of(
        wide_ints(), st.booleans(), wide_floats(), wide_decimals(), wide_datetimes(),
        wide_struct_times(), wide_strs(), st.binary(max_size=6),
        st.binary(max_size=6).map(bytearray), st.none(),
        st.dates().map(lambda d: d), st.just(Opaque()),
        st.builds(complex, st.floats(allow_nan=False, allow_infinity=False),
                  st.just(1.0)),
        st.builds(range, st.integers(0, 3)),
        st.binary(max_size=4).map(memoryview))


def anything(depth=2):
    return st.recursive(
        scalars(),
        lambda ch: st.one_of(
            st.lists(ch, max_size=3), st.lists(ch, max_size=3).map(tuple),
            st.dictionaries(wide_keys(), ch, max_size=3),
            st.frozensets(st.integers(0, 3), max_size=2).map(set)),
        max_leaves=6)


# ---------------------------------------------------------------- normalisation N10

class Excluded(Exception):
    """input falls under a documented exception: nothing is asserted"""


def instant_us(v):
    if isinstance(v, time.struct_time):
        return canon.epoch_seconds(v) * 1000000
    off = v.utcoffset()
    offs = 0 if off is None else (off.days * 86400 + off.seconds) * 1000000 + \
        off.microseconds
    return ((canon.days_from_civil(v.year, v.month, v.day) * 86400 + v.hour * 3600 +
             v.minute * 60 + v.second) * 1000000 + v.microsecond - offs)


def same10(inp, out, floats32, path='$'):
    """None if `out` is the documented reading of `inp`, else a message"""
    if isinstance(inp, (datetime.datetime, time.struct_time)):
        us = instant_us(inp)
        if us > MAX32 * 1000000:
            raise Excluded('timestamp after 2106-02-07')
        if type(out) is not datetime.datetime or out.utcoffset() != \
                datetime.timedelta(0):
            return _d('timestamp', '%s: timestamp decoded as %r' % (path, out))
        if out.microsecond != 0 or abs(instant_us(out) - us) >= 1000000:
            return _d('timestamp', '%s: instant %r decoded as %r' % (path, inp, out))
        return None
    if isinstance(inp, float) and not isinstance(out, bool) and \
            isinstance(out, float):
        want = refcodec.f32_round(inp) if floats32 else inp
        if (want != want and out != out) or (want == out):
            return None
        return _d('float', '%s: float %r decoded as %r' % (path, inp, out))
    if isinstance(inp, dict):
        if not inp:
            return None if out == {} else _d(
                'table', '%s: empty table decoded as %r' % (path, out))
        if any(isinstance(k, str) and len(k) > 128 for k in inp):
            raise Excluded('key over 128 characters')
        if type(out) is not dict or set(inp) != set(out):
            return _d('table-keys', '%s: table keys %s decoded as %s' % (
                path, canon.short(sorted(map(repr, inp))), canon.short(out)))
        for k in inp:
            r = same10(inp[k], out[k], True, '%s[%r]' % (path, k))
            if r:
                return r
        return None
    if isinstance(inp, list):
        if type(out) is not list or len(out) != len(inp):
            return _d('list', '%s: list %s decoded as %s' % (
                path, canon.short(inp), canon.short(out)))
        for i, (a, b) in enumerate(zip(inp, out)):
            r = same10(a, b, True, '%s[%d]' % (path, i))
            if r:
                return r
        return None
    try:
        eq = inp == out
    except Exception:
        eq = False
    if isinstance(inp, decimal.Decimal) and inp.is_nan():
        eq = False
    if eq is True or (not isinstance(eq, bool) and bool(eq)):
        return None
    kind = type(inp).__name__
    if isinstance(inp, (int, decimal.Decimal)) and not isinstance(inp, bool):
        try:
            if inp < 0:
                kind = 'negative-' + kind
        except Exception:
            pass
    return _d(kind, '%s: %s decoded as %s' % (path, canon.short(inp),
                                              canon.short(out)))


def _d(kind, msg):
    return refcodec._diff(kind, msg)


def table_slot_same(inp, out, path):
    if not inp:
        return None if out == {} else _d(
            'falsy-table', '%s: falsy table value %r decoded as %r' % (path, inp, out))
    return same10(inp, out, True, path)


# ---------------------------------------------------------------- primitives

PRIMS = {
    # name: (encoder attr, decoder, floats32, nominal predicate)
    'octet': ('octet', decode.octet, False,
              lambda v: type(v) is int and 0 <= v <= 255),
    'short_uint': ('short_uint', decode.short_uint, False,
                   lambda v: type(v) is int and 0 <= v <= 65535),
    'short_int': ('short_int', decode.short_int, False,
                  lambda v: type(v) is int and -32768 <= v <= 32767),
    'long_uint': ('long_uint', decode.long_uint, False,
                  lambda v: type(v) is int and 0 <= v <= MAX32),
    'long_int': ('long_int', decode.long_int, False,
                 lambda v: type(v) is int and -2**31 <= v < 2**31),
    'long_long_int': ('long_long_int', decode.long_long_int, False,
                      lambda v: type(v) is int and -2**63 <= v < 2**63),
    'boolean': ('boolean', decode.boolean, False, lambda v: type(v) is bool),
    'floating_point': ('floating_point', decode.floating_point, True,
                       lambda v: type(v) is float and abs(v) < 3e38),
    'double': ('double', decode.double, False, lambda v: type(v) is float),
    'decimal': ('decimal', decode.decimal, False,
                lambda v: type(v) is decimal.Decimal and v.is_finite() and
                0 <= -v.as_tuple().exponent <= 10 and abs(v) < 1000),
    'short_string': ('short_string', decode.short_str, False,
                     lambda v: type(v) is str and len(v) < 60 and v.isascii()),
    'long_string': ('long_string', decode.long_str, False,
                    lambda v: type(v) is str and v.isascii()),
    'timestamp': ('timestamp', decode.timestamp, False,
                  lambda v: type(v) is datetime.datetime and
                  1971 < v.year < 2100 and v.microsecond == 0),
    'byte_array': ('byte_array', decode.byte_array, False,
                   lambda v: type(v) is bytearray),
    'field_array': ('field_array', decode.field_array, True,
                    lambda v: type(v) is list and not v),
    'field_table': ('field_table', decode.field_table, True,
                    lambda v: type(v) is dict and not v),
    'table_integer': ('table_integer', decode.embedded_value, False,
                      lambda v: type(v) is int and -2**63 <= v < 2**63),
    'encode_table_value': ('encode_table_value', decode.embedded_value, True,
                           lambda v: v is None or type(v) in (bool, str)),
}


def check_prim(case):
    name, v = case['fn'], case['v']
    enc_name, dec, f32, _ = PRIMS[name]
    try:
        data = getattr(encode, enc_name)(v)
    except Exception:
        return {'labels': ['refused'], 'nontrivial': not PRIMS[name][3](v)}
    if not isinstance(data, bytes):
        raise Violation('prim-type:' + name, 'encode.%s(%s) returned %r' %
                        (name, canon.short(v), data))
    try:
        n, out = dec(data)
    except Exception:
        return {'labels': ['undecodable'], 'nontrivial': not PRIMS[name][3](v)}
    try:
        if name == 'field_table':
            msg = table_slot_same(v, out, '$')
        else:
            msg = same10(v, out, f32)
        if msg is None and n != len(data):
            msg = _d('consumed', 'decoder consumed %r of the %d bytes emitted' %
                     (n, len(data)))
    except Excluded:
        return {'labels': ['excluded-documented'], 'nontrivial': False}
    if msg:
        raise Violation('alters:prim:%s:%s' % (name, msg.kind),
                        'encode.%s(%s) -> %s: %s' %
                        (name, canon.short(v, 120), data[:24].hex(), msg))
    return {'labels': ['roundtrips'], 'nontrivial': not PRIMS[name][3](v)}


def prim_cases(tier):
    return st.fixed_dictionaries({'fn': st.sampled_from(sorted(PRIMS)),
                                  'v': anything()})


def prim_int_sweep(tier, shard, nshards):
    fns = ['octet', 'short_uint', 'short_int', 'long_uint', 'long_int',
           'long_long_int', 'table_integer', 'boolean']
    vals = WIDTH_EDGES + list(range(-260, 260)) + [True, False]
    i = 0
    for fn in fns:
        for v in vals:
            if i % nshards == shard:
                yield {'fn': fn, 'v': v}
            i += 1


# ---------------------------------------------------------------- nested tables

def check_table(case):
    v = case['v']
    try:
        data = encode.field_table(v) if case['pos'] == 'table' else \
            encode.field_array(v)
    except Exception:
        return {'labels': ['refused'], 'nontrivial': True}
    try:
        n, out = (decode.field_table if case['pos'] == 'table'
                  else decode.field_array)(data)
    except Exception:
        return {'labels': ['undecodable'], 'nontrivial': True}
    try:
        msg = table_slot_same(v, out, '$') if case['pos'] == 'table' else \
            same10(v, out, True)
        if msg is None and n != len(data):
            msg = _d('consumed', 'decoder consumed %r of the %d bytes emitted' %
                     (n, len(data)))
    except Excluded:
        return {'labels': ['excluded-documented'], 'nontrivial': False}
    if msg:
        raise Violation('alters:table:' + msg.kind, msg)
    return {'labels': ['roundtrips'], 'nontrivial': _has_wide(v)}


def _has_wide(v):
    for x in S.walk(v):
        if isinstance(x, int) and not isinstance(x, bool) and \
                not -2**31 <= x < 2**31:
            return True
        if isinstance(x, decimal.Decimal) and (x.is_signed() or
                                               -x.as_tuple().exponent > 6):
            return True
        if isinstance(x, float) and (x != x or abs(x) > 3e38 or x < 0):
            return True
        if isinstance(x, (datetime.datetime, time.struct_time)):
            return True
    return False


def table_cases(tier):
    leaf = st.one_of(scalars(), scalars(), S.leaves())
    inner = st.recursive(leaf, lambda ch: st.one_of(
        st.lists(ch, max_size=3),
        st.dictionaries(S.table_keys(), ch, max_size=3)), max_leaves=6)
    return st.one_of(
        st.fixed_dictionaries({'pos': st.just('table'),
                               'v': st.dictionaries(st.one_of(S.table_keys(),
                                                              wide_keys()),
                                                    inner, max_size=4)}),
        st.fixed_dictionaries({'pos': st.just('array'),
                               'v': st.lists(inner, max_size=4)}))


# ---------------------------------------------------------------- frames: one slot

def _nominal(wire_type, v):
    if wire_type == 'bit':
        return type(v) is bool
    if wire_type in ('octet', 'short', 'long', 'longlong'):
        lo, hi = {'octet': (0, 255), 'short': (0, 65535), 'long': (0, MAX32),
                  'longlong': (-2**63, 2**63 - 1)}[wire_type]
        return type(v) is int and lo <= v <= hi
    if wire_type in ('shortstr', 'longstr'):
        return type(v) is str and len(v) <= 60
    if wire_type == 'table':
        return type(v) is dict and not v
    return False


def check_slot(case):
    dotted, slot, v, via = case['cls'], case['slot'], case['v'], case['via']
    m = spec_table.BY_NAME[dotted]
    args = dict(case['args'])
    wire_type = [f.type for f in m.fields if f.name == slot][0]
    try:
        if via == 'ctor':
            args[slot] = v
            obj = make_method(dotted, args)
        else:
            obj = make_method(dotted, args)
            setattr(obj, slot, v)
        inputs = {f.name: getattr(obj, f.name) for f in m.fields}
        data = frame.marshal(obj, case['ch'])
    except Exception:
        return {'labels': ['refused'], 'nontrivial': not _nominal(wire_type, v)}
    try:
        n, ch, out = frame.unmarshal(data)
    except Exception:
        return {'labels': ['undecodable'],
                'nontrivial': not _nominal(wire_type, v)}
    try:
        msg = None
        if type(out) is not method_class(dotted) or ch != case['ch'] or \
                n != len(data):
            msg = _d('envelope', 'frame decoded as %s on channel %r consuming %r '
                     'of %d' % (type(out).__name__, ch, n, len(data)))
        for f in m.fields:
            if msg:
                break
            got = getattr(out, f.name)
            if f.type == 'table':
                msg = table_slot_same(inputs[f.name], got, f.name)
            else:
                msg = same10(inputs[f.name], got, False, f.name)
    except Excluded:
        return {'labels': ['excluded-documented'], 'nontrivial': False}
    if msg:
        raise Violation('alters:slot:%s:%s' % (wire_type, msg.kind),
                        '%s with %s=%s (%s) -> %s' %
                        (dotted, slot, canon.short(v, 100), via, msg))
    return {'labels': ['roundtrips'], 'nontrivial': not _nominal(wire_type, v)}


def slot_cases(tier):
    def for_method(m):
        return st.fixed_dictionaries({
            'cls': st.just(m.dotted), 'ch': S.CHANNELS,
            'args': S.method_args(m.dotted, table_leaves=3, big=False),
            'slot': st.sampled_from([f.name for f in m.fields]),
            'v': st.one_of(anything(), wide_ints(), st.booleans(), wide_strs(),
                           st.none()),
            'via': st.sampled_from(['setattr', 'setattr', 'ctor'])})
    return st.sampled_from([m for m in spec_table.METHODS if m.fields]).flatmap(
        for_method)


def bit_sweep(tier, shard, nshards):
    """every bit slot of every class x small ints / odd truthy values"""
    vals = [2, 3, 4, 255, 256, -1, -2, 1, 0, None, 1.0, 'x', '', [], [0], 0.0, 2**64]
    i = 0
    for m in spec_table.METHODS:
        for f in m.fields:
            if f.type != 'bit':
                continue
            for v in vals:
                for via in ('setattr', 'ctor'):
                    if i % nshards == shard:
                        args = {g.name: (S._CONSTRAINED.get((m.dotted, g.name),
                                                            (None, None))[1]
                                         if S._CONSTRAINED.get((m.dotted, g.name),
                                                               ('x',))[0] == 'fixed'
                                         else _plain(g)) for g in m.fields}
                        yield {'cls': m.dotted, 'ch': 1, 'args': args,
                               'slot': f.name, 'v': v, 'via': via}
                    i += 1


OFFTYPE = [b'', b'abc', b'\x00guest\x00guest', 'caf\u00e9'.encode(), b'\xff\xfe',
           bytearray(b'abc'), bytearray(b'\xff'), memoryview(b'abc'), 'abc', '', '5',
           '\u00e9' * 3, 5, 0, -1, 255, 256, 65536, 2 ** 32, 5.0, 0.5, float('nan'),
           True, False, None, decimal.Decimal(5), decimal.Decimal('0.5'),
           (1, 2), ('a',), [1], ['a'], {'k': 1}, {1: 2}, set(), {1},
           range(3), 1j, datetime.datetime(2020, 1, 1), datetime.date(2020, 1, 1)]


def offtype_sweep(tier, shard, nshards):
    """every non-bit slot of every class x values of every *other* Python type (bytes for
    text, text for numbers, floats and Decimals for integers, containers ...)"""
    i = 0
    for m in spec_table.METHODS:
        for f in m.fields:
            if f.type == 'bit':
                continue
            for k, v in enumerate(OFFTYPE):
                if isinstance(v, memoryview) and tier == 'quick' and f.type == 'table':
                    continue
                for via in (('setattr', 'ctor') if tier != 'quick' or k % 2 == 0
                            else ('setattr',)):
                    if i % nshards == shard:
                        args = {g.name: (S._CONSTRAINED.get((m.dotted, g.name),
                                                            (None, None))[1]
                                         if S._CONSTRAINED.get((m.dotted, g.name),
                                                               ('x',))[0] == 'fixed'
                                         else _plain(g)) for g in m.fields}
                        yield {'cls': m.dotted, 'ch': 1, 'args': args,
                               'slot': f.name, 'v': v, 'via': via}
                    i += 1


def _plain(f):
    return {'octet': 1, 'short': 1, 'long': 1, 'longlong': 1, 'bit': False,
            'shortstr': 'a', 'longstr': 'b', 'table': {}}[f.type]


# ---------------------------------------------------------------- header / body / etc.

def check_header(case):
    what, v = case['what'], case['v']
    props = dict(case['props'])
    try:
        p = commands.Basic.Properties(**props)
        size, ch = case['body_size'], case['ch']
        if what == 'body_size':
            size = v
        elif what == 'channel':
            ch = v
        else:
            setattr(p, what, v)
        inputs = {n: getattr(p, n) for n, _, _, _ in spec_table.PROPERTIES}
        data = frame.marshal(header.ContentHeader(0, size, p), ch)
    except Exception:
        return {'labels': ['refused'], 'nontrivial': True}
    try:
        n, rch, out = frame.unmarshal(data)
    except Exception:
        return {'labels': ['undecodable'], 'nontrivial': True}
    try:
        msg = None
        if type(out) is not header.ContentHeader or n != len(data):
            msg = _d('envelope', 'decoded as %s consuming %r of %d' % (
                type(out).__name__, n, len(data)))
        elif same10(ch, rch, False) or same10(size, out.body_size, False):
            msg = _d('channel-or-size', 'channel %r / body size %r decoded as %r / '
                     '%r' % (ch, size, rch, out.body_size))
        for name, _, wire, _ in spec_table.PROPERTIES:
            if msg:
                break
            inp, got = inputs[name], getattr(out.properties, name)
            if inp is None or (isinstance(inp, str) and inp == ''):
                want = '' if name == 'cluster_id' else None
                if got != want:
                    msg = _d('unset', 'unset %s decoded as %r' % (name, got))
            elif wire == 'table':
                msg = table_slot_same(inp, got, name)
            else:
                msg = same10(inp, got, False, name)
    except Excluded:
        return {'labels': ['excluded-documented'], 'nontrivial': False}
    if msg:
        raise Violation('alters:header:%s' % msg.kind,
                        'content header with %s=%s -> %s' %
                        (what, canon.short(v, 100), msg))
    return {'labels': ['roundtrips'], 'nontrivial': True}


def header_cases(tier):
    names = [n for n, _, _, _ in spec_table.PROPERTIES]
    return st.fixed_dictionaries({
        'props': S.property_sets(), 'body_size': S.BODY_SIZES, 'ch': S.CHANNELS,
        'what': st.sampled_from(names + ['body_size', 'channel']),
        'v': st.one_of(anything(), wide_ints(), wide_datetimes(),
                       wide_struct_times(), wide_strs())})


def check_misc(case):
    kind, v = case['kind'], case['v']
    try:
        if kind == 'body':
            obj, ch = body.ContentBody(v), case['ch']
        elif kind == 'body-channel':
            obj, ch = body.ContentBody(b'payload'), v
        elif kind == 'method-channel':
            obj, ch = commands.Basic.Ack(7, True), v
        else:
            ver = [0, 9, 1]
            ver[case['pos']] = v
            obj, ch = header.ProtocolHeader(*ver), 0
        data = frame.marshal(obj, ch)
    except Exception:
        return {'labels': ['refused'], 'nontrivial': True}
    try:
        n, rch, out = frame.unmarshal(data)
    except Exception:
        return {'labels': ['undecodable'], 'nontrivial': True}
    msg = None
    if n != len(data) or type(out) is not type(obj):
        msg = _d('envelope', 'decoded as %s consuming %r of %d' % (
            type(out).__name__, n, len(data)))
    elif kind == 'body':
        msg = same10(v, out.value, False) or same10(ch, rch, False)
    elif kind in ('body-channel', 'method-channel'):
        msg = same10(v, rch, False)
        if not msg and kind == 'method-channel' and \
                (out.delivery_tag, out.multiple) != (7, True):
            msg = _d('arguments', 'arguments changed')
    else:
        msg = same10(tuple(ver), (out.major_version, out.minor_version,
                                  out.revision), False)
    if msg:
        raise Violation('alters:%s:%s' % (kind, msg.kind),
                        '%s with %s -> %s' % (kind, canon.short(v, 100), msg))
    return {'labels': ['roundtrips'], 'nontrivial': True}


def misc_cases(tier):
    v = st.one_of(anything(), wide_ints(), wide_floats(), st.binary(max_size=40),
                  st.binary(max_size=10).map(bytearray))
    return st.one_of(
        st.fixed_dictionaries({'kind': st.just('body'), 'v': v, 'ch': S.CHANNELS}),
        st.fixed_dictionaries({'kind': st.sampled_from(['body-channel',
                                                        'method-channel']), 'v': v}),
        st.fixed_dictionaries({'kind': st.just('version'), 'v': v,
                               'pos': st.integers(0, 2)}))


COMPONENTS = [
    Component('prim-ints', check_prim, cases=prim_int_sweep,
              shards={'quick': 4, 'thorough': 4},
              describe='integer encoders x every width edge +-2 and -260..260'),
    Component('prims', check_prim, strategy=prim_cases,
              budget={'quick': 32000, 'thorough': 480000},
              describe='each primitive encoder x any Python value'),
    Component('tables', check_table, strategy=table_cases,
              budget={'quick': 16000, 'thorough': 240000},
              describe='any value at a leaf of a nested table / array'),
    Component('bit-slots', check_slot, cases=bit_sweep,
              shards={'quick': 8, 'thorough': 8},
              describe='every bit slot of every class x non-bool values'),
    Component('slot-offtypes', check_slot, cases=offtype_sweep,
              shards={'quick': 8, 'thorough': 8},
              describe='every non-bit slot of every class x values of every other Python '
                       'type (bytes, text, floats, Decimals, containers ...)'),
    Component('slots', check_slot, strategy=slot_cases,
              budget={'quick': 24000, 'thorough': 320000},
              describe='valid method frame with one slot replaced by any value'),
    Component('headers', check_header, strategy=header_cases,
              budget={'quick': 12000, 'thorough': 160000},
              describe='content header with one property / body size / channel '
                       'replaced'),
    Component('misc', check_misc, strategy=misc_cases,
              budget={'quick': 8000, 'thorough': 80000},
              describe='body value, channels, protocol version octets'),
]
