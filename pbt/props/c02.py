"""C02 - content header and Basic.Properties survive encode-then-decode."""
import datetime

from hypothesis import strategies as st

from pbt import refcodec, spec_table, strategies as S
from pbt.lib import call, frame, header, make_header
from pbt import entry
from pbt.runner import Component, Violation

PROPERTY_ID = 'C02'
LEVEL = 'exploration'
DESIGN_REF = 'DESIGN.md section 5, C02'
TECHNIQUE = ('exhaustive sweep of all 2^13 property-presence subsets + property-based '
             'round-trip and re-encode idempotence testing (Hypothesis)')
RULE = ('case = (mapping of set properties -> values, body size, channel). Sweep: all 8192 '
        'presence subsets of the 13 settable properties, each with two fixed value sets '
        '(ordinary / edge: priority 0, empty header table, 255-byte strings, timestamp '
        'with microseconds and offset). Hypothesis: random subset, random valid values '
        '(octets 0..255, delivery_mode 1|2, short strings <= 255 UTF-8 bytes, header '
        'tables from the C03 grammar, timestamps 1970..2106 naive/aware), body size '
        '0..2^64-1, channel 0..65535, plus explicit None / empty-string assignments. '
        'Oracle: consumed == len, same channel, ContentHeader, same body size, class id '
        '60, set properties type-exactly equal (C03 normalisation for headers and '
        'timestamp), all others None (cluster_id ""), and marshal(decoded) == original '
        'bytes. sequences: 2-4 headers encoded in one process, a step may re-use the '
        'previous object after re-assigning every attribute, timestamps include the two '
        'equal-comparing datetimes of a repeated DST hour (PEP 495 fold). Non-trivial = >= 2 properties present with >= 1 absent between two present '
        'ones, or content_type (flag bit 15) present; distinct = digest of the case.')
ASSUMPTIONS = [
    'weight is documented as unused and always 0',
    "'' and None both mean 'unset' (statement of C02)",
    'header tables and timestamps compared under the C03 normalisation',
]
LEVEL_TEXT = ('All 8192 presence subsets are enumerated in both tiers; values are explored '
              'by random generation. Round trip plus re-encode idempotence. Exploration, '
              'not proof, over the value space.')
LEVEL_NOTE = 'Trusted: transcribed property list/order, normalisation oracle, Hypothesis.'

NAMES = [n for n, _, _, _ in spec_table.PROPERTIES]
TYPES = {n: w for n, _, w, _ in spec_table.PROPERTIES}


def expected(name, v):
    if TYPES[name] in ('table', 'timestamp'):
        return refcodec.normalise(v)
    return v


def check(case, obj=None):
    props, body_size, ch = case['props'], case['body_size'], case['ch']
    if obj is None:
        obj = call('construct', make_header, props, body_size)
    data = call('marshal', frame.marshal, obj, ch)
    res = call('unmarshal', frame.unmarshal, data)
    n, rch, out = res
    if n != len(data):
        raise Violation('consumed', 'consumed %r of %d bytes' % (n, len(data)))
    if rch != ch:
        raise Violation('channel', 'channel %r became %r' % (ch, rch))
    if type(out) is not header.ContentHeader:
        raise Violation('class', 'decoded as %s' % type(out).__name__)
    if out.body_size != body_size or type(out.body_size) is not int:
        raise Violation('body_size', 'body size %r became %r' %
                        (body_size, out.body_size))
    if out.class_id != 60:
        raise Violation('class_id', 'class id %r' % (out.class_id,))
    p = out.properties
    for name in NAMES:
        v = props.get(name)
        got = getattr(p, name, '<missing>')
        if v is None or (isinstance(v, str) and v == ''):
            want = '' if name == 'cluster_id' else None
            if got != want or type(got) is not type(want):
                raise Violation('unset:' + name,
                                'unset property %s decoded as %r' % (name, got))
        else:
            d = refcodec.agree(expected(name, v), got, name)
            if d:
                raise Violation('set:%s:%s' % (name, d.kind), d)
    again = call('remarshal', frame.marshal, out, ch)
    if again != data:
        raise Violation('reencode', 're-encoding the decoded header gives %d bytes '
                        'differing from the original %d bytes' %
                        (len(again), len(data)))
    entry.frame_entries(obj, ch, data, out)


def check_sequence(case):
    """several headers encoded one after the other in one process; a step may re-use the
    previous ContentHeader / Properties object after re-assigning every attribute"""
    obj = None
    prev = None
    for step in case['steps']:
        if 'refused' in step:
            # a header the encoder refuses; what matters is the steps after it
            try:
                frame.marshal(make_header({'headers': step['refused']}, 1), 1)
            except Exception:
                pass
            continue
        if step.get('nested') and obj is not None and prev is not None:
            # change something *below* the top level of the headers table in place,
            # re-assign nothing, and encode the same object again
            import copy
            state = dict(prev)
            hdrs = obj.properties.headers
            target = _deepest(hdrs) if isinstance(hdrs, dict) else None
            if target is not None:
                if isinstance(target, dict):
                    target['nested-change'] = step['nested']
                elif isinstance(target, list):
                    target.append(step['nested'])
                else:
                    target.extend(b'+')
                state['props'] = dict(prev['props'], headers=copy.deepcopy(hdrs))
                check(state, obj)
            continue
        if step.get('reuse') and obj is not None:
            obj.body_size = step['body_size']
            for name in NAMES:
                setattr(obj.properties, name,
                        step['props'].get(name, '' if name == 'cluster_id' else None))
        else:
            obj = call('construct', make_header, step['props'], step['body_size'])
        check(step, obj)
        prev = step


def _deepest(v):
    """a mutable container strictly below the top level of a headers table (or None)"""
    best = None
    for x in (v.values() if isinstance(v, dict) else v):
        if isinstance(x, (dict, list)):
            best = _deepest(x) or x
        elif isinstance(x, bytearray) and best is None:
            best = x
    return best


def sequence_cases(tier):
    twins = st.builds(S.fold_pair, st.integers(1971, 2105), st.integers(0, 59),
                      st.integers(0, 999999))

    def steps(pair, cases, which, reuse):
        out = []
        for i, c in enumerate(cases):
            props = dict(c['props'])
            if which[i % len(which)] < 2:
                props['timestamp'] = pair[which[i % len(which)]]
                if i % 2:
                    props['headers'] = {'t': pair[which[i % len(which)]]}
            out.append(dict(c, props=props, reuse=reuse[i % len(reuse)]))
        return {'steps': out}
    def with_refusals(case, bad, at):
        steps_ = list(case['steps'])
        if bad is not None:
            steps_.insert(at % (len(steps_) + 1), {'refused': bad})
        # after a step whose headers hold a nested container: mutate it in place
        out = []
        for s in steps_:
            out.append(s)
            h = s.get('props', {}).get('headers') if 'props' in s else None
            if isinstance(h, dict) and _deepest(h) is not None:
                out.append({'nested': at % 7 + 1})
        return {'steps': out}
    plain = st.builds(steps, twins,
                      st.lists(S.header_cases(), min_size=2, max_size=4),
                      st.lists(st.integers(0, 2), min_size=1, max_size=4),
                      st.lists(st.booleans(), min_size=1, max_size=4))
    return st.builds(with_refusals, plain, st.one_of(st.none(), S.bad_tables()),
                     st.integers(0, 4))


def _unused_sequence_cases():
    twins = None
    steps = None
    return st.builds(steps, twins,
                     st.lists(S.header_cases(), min_size=2, max_size=4),
                     st.lists(st.integers(0, 2), min_size=1, max_size=4),
                     st.lists(st.booleans(), min_size=1, max_size=4))


def sequence_nontrivial(case):
    real = [s for s in case['steps'] if 'refused' not in s and 'nested' not in s]
    return len(real) < len(case['steps']) or \
        any(s.get('reuse') for s in real[1:]) or \
        sum(1 for s in real if 'timestamp' in s['props']) >= 2


def _present(case):
    return [i for i, n in enumerate(NAMES)
            if case['props'].get(n) not in (None, '')]


def nontrivial(case):
    pres = _present(case)
    if 0 in pres:
        return True
    return len(pres) >= 2 and (pres[-1] - pres[0] + 1) > len(pres)


def classes(case):
    pres = _present(case)
    out = ['present=%d' % len(pres)]
    if case['body_size'] >= 2**32:
        out.append('body_size>=2^32')
    if case['ch'] >= 256:
        out.append('channel>=256')
    if case['props'].get('headers'):
        out.append('nonempty-headers')
    if any(v in (None, '') for v in case['props'].values()):
        out.append('explicit-unset')
    return out


_UTC = datetime.timezone.utc
_VALUES_A = {
    'content_type': 'application/json', 'content_encoding': 'gzip',
    'headers': {'x': 1, 'y': 'z'}, 'delivery_mode': 2, 'priority': 5,
    'correlation_id': 'c-1', 'reply_to': 'amq.rabbitmq.reply-to',
    'expiration': '60000', 'message_id': 'm-1',
    'timestamp': datetime.datetime(2020, 2, 29, 12, 0, 0, tzinfo=_UTC),
    'message_type': 'evt', 'user_id': 'guest', 'app_id': 'app'}
_VALUES_B = {
    'content_type': '\xe9' * 127, 'content_encoding': 'x' * 255,
    'headers': {}, 'delivery_mode': 1, 'priority': 0,
    'correlation_id': '\U0001f600', 'reply_to': ' ', 'expiration': '0',
    'message_id': '\x00',
    'timestamp': datetime.datetime(
        2106, 2, 7, 8, 28, 15, 999999,
        tzinfo=datetime.timezone(datetime.timedelta(hours=2))),
    'message_type': 'T', 'user_id': '\xce', 'app_id': 'AMQP'}
_SIZES = [0, 1, 2**32 - 1, 2**32, 2**63, 2**64 - 1]
_CHANS = [0, 1, 255, 256, 32768, 65535]


def subset_cases(tier, shard, nshards):
    i = 0
    for mask in range(2**13):
        for vals in (_VALUES_A, _VALUES_B):
            if i % nshards == shard:
                props = {n: vals[n] for k, (n, _) in enumerate(S.SETTABLE)
                         if mask >> k & 1}
                yield {'props': props, 'body_size': _SIZES[i % 6],
                       'ch': _CHANS[(i // 6) % 6]}
            i += 1


def header_cases(tier):
    def with_unset(case, extra):
        props = dict(case['props'])
        for n, v in extra.items():
            props.setdefault(n, v)
        return dict(case, props=props)
    unset = st.dictionaries(
        st.sampled_from([n for n in NAMES if TYPES[n] == 'shortstr' and
                         n != 'cluster_id']),
        st.sampled_from([None, '']), max_size=3)
    unset2 = st.dictionaries(st.sampled_from([n for n in NAMES if n != 'cluster_id']),
                              st.none(), max_size=3)
    base = st.one_of(S.header_cases(), S.header_cases(), S.header_cases(),
                     S.header_cases(), S.big_header_cases())
    return st.builds(with_unset, base, st.one_of(
        st.just({}), st.just({}), unset, unset2))


COMPONENTS = [
    Component('subsets', check, cases=subset_cases, nontrivial=nontrivial,
              classes=classes, distinct_by_construction=True, exhaustive=True,
              describe='all 8192 presence subsets x 2 fixed value sets'),
    Component('sequences', check_sequence, strategy=sequence_cases,
              nontrivial=sequence_nontrivial,
              classes=lambda c: ['steps=%d' % len(c['steps']),
                                 'reuse' if any(s.get('reuse') for s in c['steps'][1:])
                                 else 'fresh-objects',
                                 'nested-inplace' if any('nested' in s
                                                         for s in c['steps'])
                                 else 'no-nested-change',
                                 'with-refused-step' if any('refused' in s
                                                            for s in c['steps'])
                                 else 'all-valid'],
              budget={'quick': 4800, 'thorough': 48000},
              describe='2-4 headers in sequence: object re-use after re-assignment, '
                       'equal-comparing timestamps of the repeated DST hour'),
    Component('headers', check, strategy=header_cases, nontrivial=nontrivial,
              classes=classes, budget={'quick': 16000, 'thorough': 160000},
              describe='random subsets and values'),
]
