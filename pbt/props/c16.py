"""C16 - codec calls are independent of history and of concurrent callers."""
import copy
import decimal

from hypothesis import strategies as st

from pbt import calls, canon, spec_table, strategies as S, wire
from pbt.lib import commands, decode, encode, frame, header, heartbeat
from pbt.runner import Component, HarnessError, Violation
import pamqp.common

PROPERTY_ID = 'C16'
LEVEL = 'exploration'
DESIGN_REF = 'DESIGN.md section 5, C16; section 3 (scheduler, fresh-interpreter oracle)'
TECHNIQUE = ('model-based stateful testing over API call histories (generated operation '
             'sequences incl. failed decodes, legacy-switch toggles and mutation of returned '
             'objects) with a fresh-interpreter differential oracle (fork server), aliasing '
             'and class-constant invariants after every step; generated thread '
             'interleavings under a deterministic settrace scheduler')
RULE = ('(history) sequences of up to 40 operations over the public API: construct with '
        'defaults (64 classes, ContentHeader, Basic.Properties), construct with arguments, '
        'marshal, unmarshal(valid), unmarshal(invalid -> exception), refused encodes (one per '
        'kind of exception the encoder uses: OverflowError, struct.error, ValueError, '
        'UnicodeEncodeError, decimal signals, TypeError; bad body values and channels), '
        'primitive encode / decode, toggle the legacy switch, mutate a previously returned object (add a key '
        'to its table, append to a decoded list, set a property), marshal a long-lived '
        '(possibly mutated) object again, encode two equal-comparing but distinguishable '
        'values one after the other (True/1, 0.0/-0.0, Decimal 1.0/1.00, the two datetimes '
        'of a repeated DST hour), and calls (decode, encode, marshal in a frame) on tables / '
        'arrays nested 1..128 deep (depth-ladders: every depth in descending / ascending '
        '/ zig-zag order). Oracle after every call: '
        '(i) canonical result (bytes | (consumed, channel, class, attrs) | exception type) '
        'equals the result of the same call with the same switch value in a pristine '
        'interpreter image (pbt.fresh forks a new image per call); (ii) no mutable member '
        '(dict, list, bytearray, Properties) of a library-created object is identical to a '
        'member of another library-created object or of a class attribute, and no frame, '
        'dict or list returned by a call is the object returned by an earlier call; (iii) class-'
        'level constants deep-equal their snapshot. (threads) 2-3 threads each running a '
        'drawn call list under a deterministic scheduler that switches threads at pamqp '
        'line events (quick) / opcodes (thorough) following a drawn schedule (used cyclically); every call '
        'result must equal its fresh-interpreter result. (saturation) in a forked pristine '
        'process, `fill` distinct calls of one kind (table keys, integers, strings, '
        'timestamps, decimals, method frames, headers; decoded tables with never-seen keys '
        '(optionally after one refused key), decoded decimals, decoded frames of three '
        'kinds; fill = 0 or 2^k-1, 2^k, 2^k+1 for '
        'k = 4..12) are made first, then 2-3 threads make fresh calls of that kind under a '
        'drawn schedule - so bounded caches keyed by value are exercised at and around '
        'their capacity, including concurrent eviction. Non-trivial: history contains >= 1 '
        'failed decode or mutation before a later compared call, or a depth ladder; threaded: >= 10 context '
        'switches inside pamqp code. distinct = digest of the case.')
ASSUMPTIONS = [
    'a call is described by its arguments and the legacy switch; the fresh image is a new '
    'interpreter that imported pamqp and executed nothing else',
    'the legacy switch is held constant during the concurrent phase',
    'interleavings are explored at line (quick) / opcode (thorough) granularity for <= 3 '
    'threads; bounded exploration of the schedule space, not coverage',
]
LEVEL_TEXT = ('Histories and schedules are generated, executed against the real library and '
              'compared call by call with a pristine interpreter; hidden shared state shows '
              'up as a differing result or an aliased member. Bounded exploration.')
LEVEL_NOTE = ('Trusted: the fork-server oracle, the cooperative scheduler (one runnable '
              'thread at a time), Hypothesis.')

_FRESH = [None]


def fresh():
    if _FRESH[0] is None:
        from pbt.fresh import Fresh
        _FRESH[0] = Fresh()
    return _FRESH[0]


# ---------------------------------------------------------------- constants snapshot

def _const_snapshot():
    snap = {}
    for m in spec_table.METHODS:
        cls = getattr(getattr(commands, m.pyclass), m.pyname)
        snap[m.dotted] = (cls.index, cls.frame_id, cls.name, cls.synchronous,
                          tuple(cls.valid_responses), tuple(cls.__slots__),
                          tuple(cls.amqp_type(n) for n in cls.__slots__))
    P = commands.Basic.Properties
    snap['props'] = (tuple(P.__slots__), tuple(sorted(P.flags.items())),
                     tuple(P.amqp_type(n) for n in P.__slots__))
    snap['index_mapping'] = tuple(sorted((k, v.name) for k, v in
                                         commands.INDEX_MAPPING.items()))
    snap['heartbeat'] = heartbeat.Heartbeat.value
    snap['enc_methods'] = tuple(sorted((k, getattr(v, '__name__', '?'))
                                       for k, v in encode.METHODS.items()))
    snap['dec_methods'] = tuple(sorted((k, v.__name__)
                                       for k, v in decode.METHODS.items()))
    snap['table_mapping'] = tuple(sorted((k, v.__name__)
                                         for k, v in decode.TABLE_MAPPING.items()))
    snap['structs'] = tuple(sorted((k, v.format) for k, v in
                                   vars(pamqp.common.Struct).items()
                                   if hasattr(v, 'format')))
    snap['decimal_prec'] = decimal.getcontext().prec
    return snap


_PRISTINE = [None]


def pristine():
    if _PRISTINE[0] is None:
        _PRISTINE[0] = _const_snapshot()
    return _PRISTINE[0]


def class_level_mutables():
    ids = {}
    for m in spec_table.METHODS:
        cls = getattr(getattr(commands, m.pyclass), m.pyname)
        for n, v in vars(cls).items():
            if isinstance(v, (dict, list, bytearray)):
                ids[id(v)] = '%s.%s' % (m.dotted, n)
    for n, v in vars(commands.Basic.Properties).items():
        if isinstance(v, (dict, list, bytearray)):
            ids[id(v)] = 'Basic.Properties.' + n
    return ids


def mutable_members(obj):
    """(id, description, object) of every mutable container reachable from obj"""
    out = []
    stack = [(obj, type(obj).__name__)]
    seen = set()
    while stack:
        x, path = stack.pop()
        if id(x) in seen:
            continue
        seen.add(id(x))
        if isinstance(x, dict):
            out.append((id(x), path, x))
            for k, v in x.items():
                stack.append((v, '%s[%r]' % (path, k)))
        elif isinstance(x, list):
            out.append((id(x), path, x))
            for i, v in enumerate(x):
                stack.append((v, '%s[%d]' % (path, i)))
        elif isinstance(x, bytearray):
            out.append((id(x), path, x))
        elif isinstance(x, commands.Basic.Properties):
            if x is not obj:
                out.append((id(x), path, x))
            for n in x.__slots__:
                stack.append((getattr(x, n, None), path + '.' + n))
        elif hasattr(x, '__slots__') and not isinstance(x, (str, bytes)):
            for n in x.__slots__:
                stack.append((getattr(x, n, None), path + '.' + n))
        elif hasattr(x, '__dict__') and not isinstance(x, type):
            for n, v in vars(x).items():
                stack.append((v, path + '.' + n))
    return out


# ---------------------------------------------------------------- history machine

def to_call(op):
    """history operation -> call descriptor (None for non-call operations)"""
    k = op[0]
    if k in ('construct_default', 'prim_encode', 'prim_decode'):
        return list(op)
    if k in ('construct', 'marshal'):
        return [k, op[1]]
    if k == 'unmarshal_valid':
        data, _, _ = wire.render_frame(op[1])
        return ['unmarshal', data]
    if k == 'unmarshal_invalid':
        return ['unmarshal', op[1]]
    return None


def check_history(case):
    legacy = False
    objects = []          # library-created objects, kept alive (stable ids)
    owners = {}           # id(member) -> (index of owning object, path)
    cls_ids = class_level_mutables()
    disturbed = False     # a failed decode or a mutation has happened
    compared_after = 0
    f = fresh()
    try:
        encode.support_deprecated_rabbitmq(False)
        ops = []
        for op in case['ops']:
            if op[0] == 'twin':          # two equal-comparing values, one after the other
                ops.append(['prim_encode', op[1], op[2][0]])
                ops.append(['prim_encode', op[1], op[2][1]])
            else:
                ops.append(op)
        for step, op in enumerate(ops):
            k = op[0]
            if k == 'toggle':
                encode.support_deprecated_rabbitmq(op[1])
                legacy = bool(op[1])
            elif k == 'assign':
                frames = [o for o in objects if calls.frame_state(o) is not None]
                if frames:
                    target = frames[op[1] % len(frames)]
                    for n, v in op[2].items():
                        if n in getattr(target, '__slots__', ()):
                            setattr(target, n, copy.deepcopy(v))
                    disturbed = True
            elif k == 'marshal_kept':
                frames = [o for o in objects if calls.frame_state(o) is not None]
                if not frames:
                    continue
                target = frames[op[1] % len(frames)]
                kind, state = calls.frame_state(target)
                try:
                    canon.dumps(state)
                except TypeError:
                    continue
                call = ['marshal_state', kind, state, op[2]]
                got = calls.execute(call, None, target)
                want = f.ask(legacy, call)
                if got != want:
                    raise Violation(
                        'history-dependent:marshal_kept',
                        'step %d: marshalling a long-lived %s object whose attributes '
                        'are now %s gives %s; a fresh interpreter gives %s' %
                        (step, kind, canon.short(state, 160), canon.short(got, 160),
                         canon.short(want, 160)))
                if disturbed:
                    compared_after += 1
            elif k == 'mutate':
                if objects:
                    _mutate(objects[op[1] % len(objects)], op[2])
                    disturbed = True
            else:
                call = to_call(op)
                keep = []
                got = calls.execute(call, keep)
                want = f.ask(legacy, call)
                if got != want:
                    raise Violation(
                        'history-dependent:%s' % k,
                        'step %d %s: result %s differs from the fresh-interpreter '
                        'result %s (legacy=%s)' %
                        (step, canon.short(call, 160), canon.short(got, 200),
                         canon.short(want, 200), legacy))
                if disturbed:
                    compared_after += 1
                if got.startswith("('raised'"):
                    disturbed = True
                for obj in keep:
                    idx = len(objects)
                    if calls.frame_state(obj) is not None or \
                            isinstance(obj, (dict, list)):
                        for j, o in enumerate(objects):
                            if o is obj:
                                raise Violation(
                                    'aliasing:same-object',
                                    'step %d: the %s returned by this call is the very '
                                    'object returned to the caller at object #%d' %
                                    (step, type(obj).__name__, j))
                    objects.append(obj)
                    for mid, path, member in mutable_members(obj):
                        if mid in cls_ids:
                            raise Violation('aliasing:class-attribute',
                                            'step %d: %s is the class attribute %s' %
                                            (step, path, cls_ids[mid]))
                        prev = owners.get(mid)
                        if prev is not None and prev[0] != idx:
                            raise Violation('aliasing:objects',
                                            'step %d: %s of object #%d is the same '
                                            'object as %s of object #%d' %
                                            (step, path, idx, prev[1], prev[0]))
                        owners[mid] = (idx, path)
            if _const_snapshot() != pristine():
                raise Violation('constants-changed', 'step %d (%s): a class-level '
                                'constant differs from its snapshot' % (step, k))
    finally:
        encode.support_deprecated_rabbitmq(False)
    return {'labels': ['compared-after-disturbance=%d' % min(compared_after, 5),
                       'objects=%d' % min(len(objects), 20)],
            'nontrivial': compared_after > 0 or bool(case.get('ladder'))}


def _mutate(obj, how):
    """change a previously returned object in place"""
    members = mutable_members(obj)
    for mid, path, m in members:
        if isinstance(m, dict):
            m['__mutated__' + str(how)] = how
            return
        if isinstance(m, list):
            m.append(how)
            return
    if isinstance(obj, dict):
        obj['__mutated__'] = how
    elif isinstance(obj, list):
        obj.append(how)
    elif isinstance(obj, commands.Basic.Properties):
        obj.app_id = 'mutated%d' % how
    elif isinstance(obj, header.ContentHeader):
        obj.properties.app_id = 'mutated%d' % how
        obj.body_size = how
    elif hasattr(obj, '__slots__') and obj.__slots__:
        setattr(obj, obj.__slots__[0], how)


DEFAULT_NAMES = [m.dotted for m in spec_table.METHODS] + \
    ['ContentHeader', 'Basic.Properties'] * 4 + \
    ['Connection.Start', 'Connection.StartOk', 'Exchange.Declare', 'Queue.Declare',
     'Basic.Consume', 'Queue.Bind'] * 3


def prim_encode_ops():
    vals = st.one_of(S.table_ints(), st.sampled_from([40000, 3000000000, 65535, 2**31]),
                     S.texts(8), S.table_decimals(), S.datetimes(),
                     S.tables(4), st.lists(S.leaves(), max_size=3), st.booleans(),
                     st.binary(max_size=4).map(bytearray), S.table_floats(),
                     st.integers(-2**70, 2**70))
    return st.tuples(st.just('prim_encode'), st.sampled_from(calls.PRIM_ENC), vals)


def _twin_pairs():
    import decimal as _d
    return [
            [True, 1], [1, True], [False, 0], [0, False], [0.0, -0.0], [-0.0, 0.0],
            [_d.Decimal('1.0'), _d.Decimal('1.00')], [_d.Decimal('1.00'), _d.Decimal('1')],
            [_d.Decimal('0'), _d.Decimal('-0')], [_d.Decimal('1E+2'), _d.Decimal('100')],
            [{'a': 1}, {'a': True}], [[1, 0], [True, False]], [[0.0], [-0.0]],
            [{'k': _d.Decimal('2.50')}, {'k': _d.Decimal('2.5')}],
            [1, 1.0], [255, 255.0],
            # transparent proxies: type() is the proxy class whatever they stand for
            [canon.LazyProxy({'a': 1}), canon.LazyProxy([1, 2])],
            [canon.LazyProxy([1, 2]), canon.LazyProxy({'a': 1})],
            [canon.LazyProxy('text'), canon.LazyProxy({'a': 'b'})],
            [canon.LazyProxy({'k': 2}), canon.LazyProxy([])],
            [canon.IntSub(40000), 40000], [canon.CIStr('Key'), 'key']]


TWIN_FNS = ['encode_table_value', 'timestamp', 'decimal', 'floating_point', 'octet',
            'table_integer', 'field_array', 'field_table', 'long_long_int', 'boolean',
            'short_string', 'long_string']


def twin_ops():
    """pairs of values that compare (and hash) equal but must encode differently or are
    otherwise distinguishable - the classic way a memo cache goes wrong"""
    pairs = st.one_of(
        st.sampled_from(_twin_pairs()),
        st.builds(lambda y, m, us, o: list(S.fold_pair(y, m, us))[::1 if o else -1],
                  st.integers(1971, 2105), st.integers(0, 59), st.integers(0, 999999),
                  st.booleans()))
    fns = st.sampled_from(TWIN_FNS + ['encode_table_value'] * 3)
    return st.tuples(st.just('twin'), fns, pairs)


def refused_encode_ops():
    """encodes that the library refuses, one per kind of exception it uses; the history
    oracle then watches what the *following* calls do"""
    bad_frames = st.one_of(
        st.builds(lambda v: {'kind': 'body', 'ch': 1, 'data': v},
                  st.sampled_from(['text', [1, 2], ('a',), 5])),
        st.builds(lambda t: {'kind': 'header', 'ch': 1, 'body_size': 1,
                             'props': {'headers': t}}, S.bad_tables()),
        st.builds(lambda t: {'kind': 'method', 'cls': 'Queue.Declare', 'ch': 1,
                             'args': {'ticket': 0, 'queue': 'q', 'passive': False,
                                      'durable': False, 'exclusive': False,
                                      'auto_delete': False, 'nowait': False,
                                      'arguments': t}}, S.bad_tables()),
        st.builds(lambda v: {'kind': 'method', 'cls': 'Basic.Publish', 'ch': 1,
                             'args': {'ticket': 0, 'exchange': '', 'routing_key': v,
                                      'mandatory': False, 'immediate': False}},
                  st.sampled_from([5, None, b'x', '\ud800', 'r' * 300])),
        st.builds(lambda ch: {'kind': 'body', 'ch': ch, 'data': b'x'},
                  st.sampled_from([-1, 65536, 1.5, None])))
    return st.one_of(
        st.tuples(st.just('prim_encode'), st.just('field_table'), S.bad_tables()),
        st.tuples(st.just('prim_encode'), st.just('encode_table_value'),
                  S.bad_leaves()),
        st.tuples(st.just('prim_encode'), st.sampled_from(['decimal', 'timestamp',
                                                           'floating_point',
                                                           'short_string',
                                                           'long_long_int']),
                  S.bad_leaves()),
        st.tuples(st.just('marshal'), bad_frames))


def prim_decode_ops():
    def render(v):
        out = wire.Out()
        wire.render_value(v, out)
        return bytes(out.buf)

    def render_t(t):
        out = wire.Out()
        wire.render_table(t, out)
        return bytes(out.buf)
    return st.one_of(
        st.tuples(st.just('prim_decode'), st.just('embedded_value'),
                  wire.wire_values(6).map(render)),
        st.tuples(st.just('prim_decode'), st.just('field_table'),
                  wire.wire_tables(5).map(render_t)),
        st.tuples(st.just('prim_decode'), st.sampled_from(sorted(calls.PRIM_DEC)),
                  st.binary(max_size=12)))


DEPTHS = [1, 2, 3, 5, 8, 13, 16, 17, 24, 31, 32, 33, 34, 48, 63, 64, 65, 66, 96, 100,
          127, 128]


def py_chain(depth, pattern):
    """a Python value nested `depth` containers deep (dicts / lists per pattern)"""
    v = 1
    for i in range(depth):
        kind = pattern[(depth - 1 - i) % len(pattern)]
        v = [v] if kind == 'A' else {'k': v}
    return v


def deep_call(direction, depth, pattern):
    """one call on a value nested `depth` deep (well below the interpreter's recursion
    limit, so the verdict cannot depend on the stack depth of the caller)"""
    if direction == 'decode':
        out = wire.Out()
        v = wire.chain(depth, pattern, ['s', 7])
        if v[0] == 'F' and depth % 2:
            wire.render_table(v[1], out)
            return ['prim_decode', 'field_table', bytes(out.buf)]
        wire.render_value(v, out)
        return ['prim_decode', 'embedded_value', bytes(out.buf)]
    if direction == 'encode':
        v = py_chain(depth, pattern)
        return ['prim_encode', 'field_table' if isinstance(v, dict) else 'field_array',
                v]
    args = {'ticket': 0, 'queue': 'q', 'passive': False, 'durable': False,
            'exclusive': False, 'auto_delete': False, 'nowait': False,
            'arguments': {'deep': py_chain(depth, pattern)}}
    return ['marshal', {'kind': 'method', 'cls': 'Queue.Declare', 'ch': 1,
                        'args': args}]


def deep_ops():
    return st.builds(deep_call, st.sampled_from(['decode', 'decode', 'encode', 'frame']),
                     st.one_of(st.sampled_from(DEPTHS), st.integers(1, 128)),
                     st.sampled_from(['F', 'A', 'AF', 'FA'])).map(tuple)


def shared_value_sweep(tier, shard, nshards):
    """every boundary-length name constructed / marshalled by every name-bearing class in
    turn (forward and reverse class order): each result vs a fresh interpreter"""
    from pbt.props import c13
    out = []
    slots = [(c, s) for c, s, _, _ in c13.NAME_SLOTS]
    for v in ['a' * n for n in (127, 128, 200, 256, 257)] + ['a*b']:
        for order in (slots, slots[::-1]):
            for kind in ('construct', 'marshal'):
                out.append({'ops': [[kind, {'kind': 'method', 'cls': c, 'ch': 1,
                                            'args': {s: v}}] for c, s in order],
                            'ladder': True})
    return out[shard::nshards]


def depth_ladders(tier, shard, nshards):
    """values of every nesting depth 1..128 coded one after the other - descending,
    ascending, and a shallow value after each deep one - so that a call refused (or
    accepted) for its depth cannot change what the next call is given"""
    out = []
    for direction in ('decode', 'encode', 'frame'):
        for pattern in ('F', 'A', 'AF'):
            down = [deep_call(direction, d, pattern) for d in range(128, 0, -1)]
            up = down[::-1]
            other = 'encode' if direction == 'decode' else 'decode'
            zig = []
            for d in DEPTHS[::-1]:
                zig += [deep_call(direction, d, pattern), deep_call(other, 33, 'F'),
                        deep_call(other, d, pattern),
                        deep_call(direction, max(1, d - 1), pattern)]
            for ops in (down, up + down[:40], zig):
                out.append({'ops': ops, 'ladder': True})
    return out[shard::nshards]


def invalid_bytes():
    return st.one_of(
        st.binary(max_size=24),
        st.sampled_from([b'\x01\x00\x01\x00\x00\x00\x04\x00\x0a\x00\x0b\xce',
                         b'\x02\x00\x01\x00\x00\x00\x02\x00\x3c\xce', b'AMQP\x00',
                         b'\x01\x00\x01\x00\x00\x00\x09\x00\x0a\x00\x0b\x00\x00\x00\xff'
                         b'\x01\xce',
                         b'\x08\x00\x00\x00\x00\x00\x00\x00']))


def shared_value_ops():
    """the *same* few values offered to different classes / arguments within one history
    (random arguments practically never coincide): names at the limits of the two name
    domains, which are valid for one argument and invalid for another"""
    from pbt.props import c13
    pool = ['a' * n for n in (127, 128, 200, 255, 256, 257)] + ['a*b', 'ok', '']
    slots = [(c, s) for c, s, _, _ in c13.NAME_SLOTS]
    return st.builds(
        lambda cs, v, kind: (kind, {'kind': 'method', 'cls': cs[0], 'ch': 1,
                                    'args': {cs[1]: v}}),
        st.sampled_from(slots), st.sampled_from(pool),
        st.sampled_from(['construct', 'marshal']))


def call_ops():
    frames = S.any_frame_cases(big_bodies=False)
    return st.one_of(
        st.tuples(st.just('construct_default'), st.sampled_from(DEFAULT_NAMES)),
        st.tuples(st.just('construct_default'), st.sampled_from(DEFAULT_NAMES)),
        st.tuples(st.just('construct'), frames),
        st.tuples(st.just('marshal'), frames),
        st.tuples(st.just('unmarshal_valid'), wire.wire_frames()),
        st.tuples(st.just('unmarshal_valid'), wire.wire_frames()),
        st.tuples(st.just('unmarshal_invalid'), invalid_bytes()),
        prim_encode_ops(), prim_decode_ops(), refused_encode_ops(), deep_ops(),
        shared_value_ops())


def history_cases(tier):
    op = st.one_of(
        call_ops(), call_ops(), call_ops(), twin_ops(),
        st.tuples(st.just('marshal_kept'), st.integers(0, 50),
                  st.sampled_from([1, 1, 1, 2, 0])),
        st.tuples(st.just('marshal_kept'), st.integers(0, 3), st.just(1)),
        st.tuples(st.just('toggle'), st.booleans()),
        st.tuples(st.just('mutate'), st.integers(0, 50), st.integers(1, 9)),
        st.tuples(st.just('mutate'), st.integers(0, 50), st.integers(1, 9)),
    ).map(list)
    return st.fixed_dictionaries({'ops': st.lists(op, min_size=3, max_size=40)})


def default_then_mutate(tier, shard, nshards):
    """every class: construct defaults, mutate every mutable member, construct again"""
    names = [m.dotted for m in spec_table.METHODS] + ['ContentHeader',
                                                      'Basic.Properties']
    out = []
    for n in names:
        out.append({'ops': [['construct_default', n], ['mutate', 0, 1],
                            ['construct_default', n], ['mutate', 1, 2],
                            ['toggle', True], ['construct_default', n],
                            ['toggle', False], ['construct_default', n]]})
    return out[shard::nshards]


def twins_all(tier, shard, nshards):
    """every twin pair x every encoder, both orders, each as its own short history"""
    out = []
    years = (1975, 2021, 2104)
    pairs = _twin_pairs() + [list(S.fold_pair(y, 30, 5)) for y in years]
    for pair in pairs:
        for fn in TWIN_FNS:
            for order in (pair, pair[::-1]):
                out.append({'ops': [['twin', fn, list(order)], ['toggle', True],
                                    ['twin', fn, list(order)], ['toggle', False]]})
    return out[shard::nshards]


def reuse_all(tier, shard, nshards):
    """every class with arguments: construct, marshal, re-assign every argument on the
    same object, marshal again (same channel), toggle the switch, marshal again"""
    from pbt.props import c01
    out = []
    for c in c01.reassign_sweep(tier, 0, 1):
        if c['inplace']:
            continue
        out.append({'ops': [
            ['construct', {'kind': 'method', 'cls': c['cls'], 'args': c['args'],
                           'ch': 1}],
            ['marshal_kept', 0, 1], ['assign', 0, c['args2']], ['marshal_kept', 0, 1],
            ['toggle', True], ['marshal_kept', 0, 1], ['toggle', False],
            ['mutate', 0, 7], ['marshal_kept', 0, 1]]})
    return out[shard::nshards]


# ---------------------------------------------------------------- threads

def check_threads(case):
    from pbt.sched import Deadlock, Scheduler
    f = fresh()
    lists = [[to_call(op) for op in ops] for ops in case['threads']]
    wants = [[f.ask(False, c) for c in cl] for cl in lists]
    encode.support_deprecated_rabbitmq(False)

    def body(cl):
        def run():
            return [calls.execute(c) for c in cl]
        return run
    s = Scheduler([body(cl) for cl in lists], case['schedule'],
                  opcode=case.get('opcode', False))
    try:
        results = s.run()
    except Deadlock as e:
        raise HarnessError('scheduler: %s' % e)
    for t, (got, want, cl) in enumerate(zip(results, wants, lists)):
        if got is None:
            raise HarnessError('thread %d produced no result: %r' % (t, s.errors[t]))
        for i, (g, w) in enumerate(zip(got, want)):
            if g != w:
                raise Violation('schedule-dependent:%s' % cl[i][0],
                                'thread %d call %d %s under the drawn schedule gives '
                                '%s, fresh interpreter gives %s' %
                                (t, i, canon.short(cl[i], 120), canon.short(g, 160),
                                 canon.short(w, 160)))
    if _const_snapshot() != pristine():
        raise Violation('constants-changed', 'a class-level constant changed during '
                        'the concurrent phase')
    return {'labels': ['switches>=10' if s.switches >= 10 else 'switches<10',
                       'threads=%d' % len(lists)],
            'nontrivial': s.switches >= 10}


def thread_cases(tier):
    cl = st.lists(call_ops().map(list), min_size=1, max_size=4)
    return st.fixed_dictionaries({
        'threads': st.lists(cl, min_size=2, max_size=3),
        'schedule': st.lists(st.integers(0, 5), min_size=3, max_size=200),
        'opcode': st.just(tier == 'thorough')})


def check_cross_thread(case):
    """a history whose operations are placed on 2-3 long-lived threads, one at a time:
    results may not depend on which thread made the call or set the switch"""
    from pbt.sched import ThreadPoolSeq
    f = fresh()
    pool = ThreadPoolSeq(case['nthreads'])
    legacy = False
    cross = 0
    last = None
    try:
        pool.call(0, lambda: encode.support_deprecated_rabbitmq(False))
        for step, (tid, op) in enumerate(case['ops']):
            if op[0] == 'toggle':
                pool.call(tid, lambda: encode.support_deprecated_rabbitmq(op[1]))
                legacy = bool(op[1])
                last = tid
                continue
            call = to_call(op)
            if call is None:
                continue
            got = pool.call(tid, lambda: calls.execute(call))
            want = f.ask(legacy, call)
            if last is not None and last != tid:
                cross += 1
            if got != want:
                raise Violation('thread-dependent:%s' % op[0],
                                'step %d on thread %d %s: result %s differs from the '
                                'fresh-interpreter result %s (legacy=%s, last toggled by '
                                'thread %s)' % (step, tid, canon.short(call, 140),
                                                canon.short(got, 160),
                                                canon.short(want, 160), legacy, last))
    finally:
        try:
            pool.call(0, lambda: encode.support_deprecated_rabbitmq(False))
        finally:
            pool.close()
            encode.support_deprecated_rabbitmq(False)
    return {'labels': ['cross=%d' % min(cross, 5)], 'nontrivial': cross > 0}


def switch_sensitive_calls():
    """calls whose result is different under the two settings of the legacy switch"""
    qd = {'ticket': 0, 'queue': 'q', 'passive': False, 'durable': False,
          'exclusive': False, 'auto_delete': False, 'nowait': False}
    out = []
    for n in (40000, 65535, 3000000000, 2 ** 32 - 1):
        out += [['prim_encode', 'table_integer', n],
                ['prim_encode', 'encode_table_value', n],
                ['prim_encode', 'field_table', {'k': n}],
                ['prim_encode', 'field_array', [1, [n], {'d': n}]],
                ['marshal', {'kind': 'method', 'cls': 'Queue.Declare', 'ch': 1,
                             'args': dict(qd, arguments={'x-max-length': n})}],
                ['marshal', {'kind': 'header', 'ch': 1, 'body_size': 1,
                             'props': {'headers': {'n': [n]}}}]]
    return out


def switch_cross_thread_sweep(tier, shard, nshards):
    """the switch set on one thread, a switch-sensitive call made on another (or the
    same), for every pair of threads, both directions of the switch and every such call"""
    out = []
    for call in switch_sensitive_calls():
        for a in range(3):
            for b in range(3):
                for first in (True, False):
                    out.append({'nthreads': 3, 'ops': [
                        [a, ['toggle', first]], [b, call], [a, call],
                        [b, ['toggle', not first]], [a, call], [b, call],
                        [a, ['toggle', first]], [(b + 1) % 3, call], [b, call]]})
    return out[shard::nshards]


def cross_thread_cases(tier):
    sensitive = st.sampled_from(switch_sensitive_calls()).map(tuple)
    op = st.one_of(call_ops(), call_ops(), prim_encode_ops(), sensitive,
                   st.tuples(st.just('toggle'), st.booleans())).map(list)
    return st.fixed_dictionaries({
        'nthreads': st.integers(2, 3),
        'ops': st.lists(st.tuples(st.integers(0, 2), op).map(list), min_size=3,
                        max_size=25)})


# ---------------------------------------------------------------- saturation x schedule

FILL_LEVELS = sorted({0} | {2 ** k + d for k in range(4, 13) for d in (-1, 0, 1)})
SAT_KINDS = ['keys', 'ints', 'strs', 'timestamps', 'decimals', 'frames', 'headers',
             'decode-tables', 'decode-decimals', 'decode-frames', 'decode-after-refusal']


def sat_call(kind, i):
    """the i-th distinct call of a kind (deterministic)"""
    import datetime
    if kind == 'keys':
        return ['prim_encode', 'field_table', {'key-%07d' % i: 1}]
    if kind == 'ints':
        return ['prim_encode', 'encode_table_value', 1000 + i * 7]
    if kind == 'strs':
        return ['prim_encode', 'long_string', 'value-%07d' % i]
    if kind == 'timestamps':
        return ['prim_encode', 'timestamp',
                datetime.datetime(2001, 1, 1, tzinfo=datetime.timezone.utc) +
                datetime.timedelta(seconds=i * 61)]
    if kind == 'decimals':
        return ['prim_encode', 'decimal', decimal.Decimal(i).scaleb(-(i % 5))]
    if kind in ('decode-tables', 'decode-after-refusal'):
        # a table with a never-seen key (and, as call 0 of 'decode-after-refusal', one
        # whose key is not UTF-8, which the decoder must refuse - and forget)
        key = b'\xff\xfe' if (kind == 'decode-after-refusal' and i == 0) else \
            b'dk-%07d' % i
        entry = bytes([len(key)]) + key + b'I' + (i % 2 ** 31).to_bytes(4, 'big')
        return ['prim_decode', 'field_table', len(entry).to_bytes(4, 'big') + entry]
    if kind == 'decode-decimals':
        return ['prim_decode', 'decimal', bytes([i % 256]) + (i * 7919 % 2 ** 31).to_bytes(
            4, 'big')]
    if kind == 'decode-frames':
        body = b'body-%07d' % i
        frames = [b'\x03\x00\x07' + len(body).to_bytes(4, 'big') + body + b'\xce',
                  b'\x01\x00\x01\x00\x00\x00\x0d\x00\x3c\x00\x50' +
                  i.to_bytes(8, 'big') + b'\x00\xce',
                  b'\x02\x00\x01\x00\x00\x00\x0e\x00\x3c\x00\x00' +
                  i.to_bytes(8, 'big') + b'\x00\x00\xce']
        return ['unmarshal', frames[i % 3]]
    if kind == 'frames':
        return ['marshal', {'kind': 'method', 'cls': 'Queue.Declare', 'ch': 1,
                            'args': {'ticket': 0, 'queue': 'q-%07d' % i,
                                     'passive': False, 'durable': True,
                                     'exclusive': False, 'auto_delete': False,
                                     'nowait': False,
                                     'arguments': {'arg-%07d' % i: i}}}]
    return ['marshal', {'kind': 'header', 'ch': 1, 'body_size': i,
                        'props': {'message_id': 'm-%07d' % i,
                                  'headers': {'h-%07d' % i: i}}}]


def check_saturation(case):
    """in a forked, pristine copy of this process: perform `fill` distinct calls of one
    kind (so that any bounded cache keyed by value is driven to a chosen fill level), then
    let 2-3 threads make fresh calls of that kind under a drawn schedule; every result must
    equal the fresh-interpreter result"""
    import json
    import os as _os
    from pbt.sched import Deadlock, Scheduler
    kind, fill = case['kind'], case['fill']
    f = fresh()
    base = 5000000
    lists = [[sat_call(kind, base + t * 1000 + j) for j in range(n)]
             for t, n in enumerate(case['per_thread'])]
    wants = [[f.ask(False, c) for c in cl] for cl in lists]
    r, w = _os.pipe()
    pid = _os.fork()
    if pid == 0:
        try:
            _os.close(r)
            encode.support_deprecated_rabbitmq(False)
            for i in range(fill):
                calls.execute(sat_call(kind, i))
            if kind == 'decode-after-refusal' and fill == 0:
                calls.execute(sat_call(kind, 0))

            def body(cl):
                return lambda: [calls.execute(c) for c in cl]
            s = Scheduler([body(cl) for cl in lists], case['schedule'],
                          opcode=case.get('opcode', False), timeout=120)
            try:
                out = {'results': s.run(), 'switches': s.switches}
            except Deadlock as e:
                out = {'deadlock': str(e)}
            _os.write(w, json.dumps(out).encode())
        except BaseException as e:
            _os.write(w, json.dumps({'error': repr(e)}).encode())
        finally:
            _os._exit(0)
    _os.close(w)
    chunks = []
    while True:
        b = _os.read(r, 65536)
        if not b:
            break
        chunks.append(b)
    _os.close(r)
    _os.waitpid(pid, 0)
    out = json.loads(b''.join(chunks).decode() or '{}')
    if 'results' not in out:
        raise HarnessError('saturation child: %r' % out)
    for t, (got, want, cl) in enumerate(zip(out['results'], wants, lists)):
        for i, (g, wv) in enumerate(zip(got or [], want)):
            if g != wv:
                raise Violation('saturation:%s' % cl[i][0],
                                'after %d distinct %s calls, thread %d call %d %s '
                                'under the drawn schedule gives %s; a fresh '
                                'interpreter gives %s' %
                                (fill, kind, t, i, canon.short(cl[i], 100),
                                 canon.short(g, 160), canon.short(wv, 160)))
        if got is None or len(got) != len(want):
            raise HarnessError('saturation thread %d produced %r' % (t, got))
    return {'labels': ['kind=' + kind, 'fill>=1024' if fill >= 1024 else 'fill<1024'],
            'nontrivial': out['switches'] >= 10 and fill > 0}


def saturation_cases(tier):
    return st.fixed_dictionaries({
        'kind': st.sampled_from(SAT_KINDS), 'fill': st.sampled_from(FILL_LEVELS),
        'per_thread': st.lists(st.integers(1, 2), min_size=2, max_size=3),
        'schedule': st.lists(st.integers(0, 5), min_size=3, max_size=60),
        'opcode': st.just(tier == 'thorough')})


def saturation_sweep(tier, shard, nshards):
    """every kind x every fill level x a few fixed schedules"""
    scheds = ([0, 1], [0, 0, 1], [0, 1, 1, 0, 0, 1], [0, 0, 0, 1, 1, 1, 0, 1],
              [1, 0, 0, 0, 0, 1, 1, 1, 1, 0])
    out = []
    for kind in SAT_KINDS:
        for fill in FILL_LEVELS:
            for sc in scheds:
                out.append({'kind': kind, 'fill': fill, 'per_thread': [1, 1],
                            'schedule': list(sc), 'opcode': False})
    return out[shard::nshards]


def first_use_sweep(kinds):
    """the very first calls of a pristine process made by two threads, one of them k
    traced lines ahead of the other (k = 0..59): lazily built tables / caches must not be
    visible half-built"""
    def cases(tier, shard, nshards):
        out = []
        for kind in kinds:
            for k in range(60):
                out.append({'kind': kind, 'fill': 0, 'per_thread': [1, 1],
                            'schedule': [0] * k + [1] * 300 + [0] * 300,
                            'opcode': False})
                if k % 4 == 0:
                    out.append({'kind': kind, 'fill': 0, 'per_thread': [2, 2, 1],
                                'schedule': [1] * k + [0, 2] * 150 + [1] * 300,
                                'opcode': False})
        return out[shard::nshards]
    return cases


COMPONENTS = [
    Component('defaults', check_history, cases=default_then_mutate,
              shards={'quick': 8, 'thorough': 8},
              describe='every class: default construction, mutation of every returned '
                       'default, construction again (also under the legacy switch)'),
    Component('reuse-all', check_history, cases=reuse_all,
              shards={'quick': 8, 'thorough': 8},
              describe='every class: one long-lived object marshalled, re-assigned, '
                       'marshalled again; also across a switch toggle'),
    Component('twins-all', check_history, cases=twins_all,
              shards={'quick': 8, 'thorough': 8},
              describe='every equal-comparing twin pair (numbers, decimals, fold twins, '
                       'proxies, int / str subclasses) x every encoder, both orders'),
    Component('shared-values', check_history, cases=shared_value_sweep,
              shards={'quick': 8, 'thorough': 8},
              describe='one boundary-length name given to every name-bearing class in turn '
                       '(construct / marshal, both class orders); each result vs a fresh '
                       'interpreter'),
    Component('depth-ladders', check_history, cases=depth_ladders,
              shards={'quick': 8, 'thorough': 8},
              describe='tables / arrays of every nesting depth 1..128 decoded, encoded '
                       'and sent in frames one after the other (descending, ascending, '
                       'zig-zag across directions); each result vs a fresh interpreter'),
    Component('history', check_history, strategy=history_cases,
              budget={'quick': 2400, 'thorough': 48000},
              describe='generated API call histories vs fresh interpreter'),
    Component('switch-cross-thread', check_cross_thread,
              cases=switch_cross_thread_sweep, shards={'quick': 8, 'thorough': 8},
              describe='the legacy switch set on one long-lived thread and every kind of '
                       'switch-sensitive call made on another: all thread pairs, both '
                       'directions'),
    Component('cross-thread', check_cross_thread, strategy=cross_thread_cases,
              budget={'quick': 1600, 'thorough': 32000},
              describe='histories (incl. switch toggles) whose operations are placed on '
                       '2-3 long-lived threads, one at a time'),
    Component('saturation-all', check_saturation, cases=saturation_sweep,
              distinct_by_construction=True,
              describe='every value kind x every power-of-two fill level +-1 (16..4096) '
                       'x 5 fixed two-thread schedules, each in a forked pristine process'),
    Component('first-use', check_saturation, cases=first_use_sweep(SAT_KINDS),
              distinct_by_construction=True,
              describe='the first calls of a forked pristine process made by 2-3 '
                       'threads, one of them 0..59 traced lines ahead (every value kind)'),
    Component('saturation', check_saturation, strategy=saturation_cases,
              budget={'quick': 1600, 'thorough': 32000},
              describe='drawn kind / fill level / schedule; threads make fresh calls '
                       'after the process has seen `fill` distinct values'),
    Component('threads', check_threads, strategy=thread_cases,
              budget={'quick': 1600, 'thorough': 32000},
              describe='2-3 threads under generated deterministic schedules'),
]
