"""C16 - codec calls are independent of history and of concurrent callers."""
import copy
import decimal

from hypothesis import strategies as st

from pbt import calls, canon, spec_table, strategies as S, wire
from pbt.lib import commands, decode, encode, frame, header, heartbeat
from pbt.runner import Component, HarnessError, Violation
import pamqp.common

PROPERTY_ID = 'C16'
LEVEL = 'exploration'
DESIGN_REF = 'DESIGN.md section 5, C16; section 3 (scheduler, fresh-interpreter oracle)'
TECHNIQUE = ('model-based stateful testing over API call histories (generated operation '
             'sequences incl. failed decodes, legacy-switch toggles and mutation of returned '
             'objects) with a fresh-interpreter differential oracle (fork server), aliasing '
             'and class-constant invariants after every step; generated thread '
             'interleavings under a deterministic settrace scheduler')
RULE = ('(history) sequences of up to 40 operations over the public API: construct with '
        'defaults (64 classes, ContentHeader, Basic.Properties), construct with arguments, '
        'marshal, unmarshal(valid), unmarshal(invalid -> exception), primitive encode / '
        'decode, toggle the legacy switch, mutate a previously returned object (add a key '
        'to its table, append to a decoded list, set a property). Oracle after every call: '
        '(i) canonical result (bytes | (consumed, channel, class, attrs) | exception type) '
        'equals the result of the same call with the same switch value in a pristine '
        'interpreter image (pbt.fresh forks a new image per call); (ii) no mutable member '
        '(dict, list, bytearray, Properties) of a library-created object is identical to a '
        'member of another library-created object or of a class attribute; (iii) class-'
        'level constants deep-equal their snapshot. (threads) 2-3 threads each running a '
        'drawn call list under a deterministic scheduler that switches threads at pamqp '
        'line events (quick) / opcodes (thorough) following a drawn schedule (used cyclically); every call '
        'result must equal its fresh-interpreter result. Non-trivial: history contains >= 1 '
        'failed decode or mutation before a later compared call; threaded: >= 10 context '
        'switches inside pamqp code. distinct = digest of the case.')
ASSUMPTIONS = [
    'a call is described by its arguments and the legacy switch; the fresh image is a new '
    'interpreter that imported pamqp and executed nothing else',
    'the legacy switch is held constant during the concurrent phase',
    'interleavings are explored at line (quick) / opcode (thorough) granularity for <= 3 '
    'threads; bounded exploration of the schedule space, not coverage',
]
LEVEL_TEXT = ('Histories and schedules are generated, executed against the real library and '
              'compared call by call with a pristine interpreter; hidden shared state shows '
              'up as a differing result or an aliased member. Bounded exploration.')
LEVEL_NOTE = ('Trusted: the fork-server oracle, the cooperative scheduler (one runnable '
              'thread at a time), Hypothesis.')

_FRESH = [None]


def fresh():
    if _FRESH[0] is None:
        from pbt.fresh import Fresh
        _FRESH[0] = Fresh()
    return _FRESH[0]


# ---------------------------------------------------------------- constants snapshot

def _const_snapshot():
    snap = {}
    for m in spec_table.METHODS:
        cls = getattr(getattr(commands, m.pyclass), m.pyname)
        snap[m.dotted] = (cls.index, cls.frame_id, cls.name, cls.synchronous,
                          tuple(cls.valid_responses), tuple(cls.__slots__),
                          tuple(cls.amqp_type(n) for n in cls.__slots__))
    P = commands.Basic.Properties
    snap['props'] = (tuple(P.__slots__), tuple(sorted(P.flags.items())),
                     tuple(P.amqp_type(n) for n in P.__slots__))
    snap['index_mapping'] = tuple(sorted((k, v.name) for k, v in
                                         commands.INDEX_MAPPING.items()))
    snap['heartbeat'] = heartbeat.Heartbeat.value
    snap['enc_methods'] = tuple(sorted((k, getattr(v, '__name__', '?'))
                                       for k, v in encode.METHODS.items()))
    snap['dec_methods'] = tuple(sorted((k, v.__name__)
                                       for k, v in decode.METHODS.items()))
    snap['table_mapping'] = tuple(sorted((k, v.__name__)
                                         for k, v in decode.TABLE_MAPPING.items()))
    snap['structs'] = tuple(sorted((k, v.format) for k, v in
                                   vars(pamqp.common.Struct).items()
                                   if hasattr(v, 'format')))
    snap['decimal_prec'] = decimal.getcontext().prec
    return snap


_PRISTINE = [None]


def pristine():
    if _PRISTINE[0] is None:
        _PRISTINE[0] = _const_snapshot()
    return _PRISTINE[0]


def class_level_mutables():
    ids = {}
    for m in spec_table.METHODS:
        cls = getattr(getattr(commands, m.pyclass), m.pyname)
        for n, v in vars(cls).items():
            if isinstance(v, (dict, list, bytearray)):
                ids[id(v)] = '%s.%s' % (m.dotted, n)
    for n, v in vars(commands.Basic.Properties).items():
        if isinstance(v, (dict, list, bytearray)):
            ids[id(v)] = 'Basic.Properties.' + n
    return ids


def mutable_members(obj):
    """(id, description, object) of every mutable container reachable from obj"""
    out = []
    stack = [(obj, type(obj).__name__)]
    seen = set()
    while stack:
        x, path = stack.pop()
        if id(x) in seen:
            continue
        seen.add(id(x))
        if isinstance(x, dict):
            out.append((id(x), path, x))
            for k, v in x.items():
                stack.append((v, '%s[%r]' % (path, k)))
        elif isinstance(x, list):
            out.append((id(x), path, x))
            for i, v in enumerate(x):
                stack.append((v, '%s[%d]' % (path, i)))
        elif isinstance(x, bytearray):
            out.append((id(x), path, x))
        elif isinstance(x, commands.Basic.Properties):
            if x is not obj:
                out.append((id(x), path, x))
            for n in x.__slots__:
                stack.append((getattr(x, n, None), path + '.' + n))
        elif hasattr(x, '__slots__') and not isinstance(x, (str, bytes)):
            for n in x.__slots__:
                stack.append((getattr(x, n, None), path + '.' + n))
        elif hasattr(x, '__dict__') and not isinstance(x, type):
            for n, v in vars(x).items():
                stack.append((v, path + '.' + n))
    return out


# ---------------------------------------------------------------- history machine

def to_call(op):
    """history operation -> call descriptor (None for non-call operations)"""
    k = op[0]
    if k in ('construct_default', 'prim_encode', 'prim_decode'):
        return list(op)
    if k in ('construct', 'marshal'):
        return [k, op[1]]
    if k == 'unmarshal_valid':
        data, _, _ = wire.render_frame(op[1])
        return ['unmarshal', data]
    if k == 'unmarshal_invalid':
        return ['unmarshal', op[1]]
    return None


def check_history(case):
    legacy = False
    objects = []          # library-created objects, kept alive (stable ids)
    owners = {}           # id(member) -> (index of owning object, path)
    cls_ids = class_level_mutables()
    disturbed = False     # a failed decode or a mutation has happened
    compared_after = 0
    f = fresh()
    try:
        encode.support_deprecated_rabbitmq(False)
        for step, op in enumerate(case['ops']):
            k = op[0]
            if k == 'toggle':
                encode.support_deprecated_rabbitmq(op[1])
                legacy = bool(op[1])
            elif k == 'mutate':
                if objects:
                    _mutate(objects[op[1] % len(objects)], op[2])
                    disturbed = True
            else:
                call = to_call(op)
                keep = []
                got = calls.execute(call, keep)
                want = f.ask(legacy, call)
                if got != want:
                    raise Violation(
                        'history-dependent:%s' % k,
                        'step %d %s: result %s differs from the fresh-interpreter '
                        'result %s (legacy=%s)' %
                        (step, canon.short(call, 160), canon.short(got, 200),
                         canon.short(want, 200), legacy))
                if disturbed:
                    compared_after += 1
                if got.startswith("('raised'"):
                    disturbed = True
                for obj in keep:
                    idx = len(objects)
                    objects.append(obj)
                    for mid, path, member in mutable_members(obj):
                        if mid in cls_ids:
                            raise Violation('aliasing:class-attribute',
                                            'step %d: %s is the class attribute %s' %
                                            (step, path, cls_ids[mid]))
                        prev = owners.get(mid)
                        if prev is not None and prev[0] != idx:
                            raise Violation('aliasing:objects',
                                            'step %d: %s of object #%d is the same '
                                            'object as %s of object #%d' %
                                            (step, path, idx, prev[1], prev[0]))
                        owners[mid] = (idx, path)
            if _const_snapshot() != pristine():
                raise Violation('constants-changed', 'step %d (%s): a class-level '
                                'constant differs from its snapshot' % (step, k))
    finally:
        encode.support_deprecated_rabbitmq(False)
    return {'labels': ['compared-after-disturbance=%d' % min(compared_after, 5),
                       'objects=%d' % min(len(objects), 20)],
            'nontrivial': compared_after > 0}


def _mutate(obj, how):
    """change a previously returned object in place"""
    members = mutable_members(obj)
    for mid, path, m in members:
        if isinstance(m, dict):
            m['__mutated__' + str(how)] = how
            return
        if isinstance(m, list):
            m.append(how)
            return
    if isinstance(obj, dict):
        obj['__mutated__'] = how
    elif isinstance(obj, list):
        obj.append(how)
    elif isinstance(obj, commands.Basic.Properties):
        obj.app_id = 'mutated%d' % how
    elif isinstance(obj, header.ContentHeader):
        obj.properties.app_id = 'mutated%d' % how
        obj.body_size = how
    elif hasattr(obj, '__slots__') and obj.__slots__:
        setattr(obj, obj.__slots__[0], how)


DEFAULT_NAMES = [m.dotted for m in spec_table.METHODS] + \
    ['ContentHeader', 'Basic.Properties'] * 4 + \
    ['Connection.Start', 'Connection.StartOk', 'Exchange.Declare', 'Queue.Declare',
     'Basic.Consume', 'Queue.Bind'] * 3


def prim_encode_ops():
    vals = st.one_of(S.table_ints(), S.texts(8), S.table_decimals(), S.datetimes(),
                     S.tables(4), st.lists(S.leaves(), max_size=3), st.booleans(),
                     st.binary(max_size=4).map(bytearray), S.table_floats(),
                     st.integers(-2**70, 2**70))
    return st.tuples(st.just('prim_encode'), st.sampled_from(calls.PRIM_ENC), vals)


def prim_decode_ops():
    def render(v):
        out = wire.Out()
        wire.render_value(v, out)
        return bytes(out.buf)

    def render_t(t):
        out = wire.Out()
        wire.render_table(t, out)
        return bytes(out.buf)
    return st.one_of(
        st.tuples(st.just('prim_decode'), st.just('embedded_value'),
                  wire.wire_values(6).map(render)),
        st.tuples(st.just('prim_decode'), st.just('field_table'),
                  wire.wire_tables(5).map(render_t)),
        st.tuples(st.just('prim_decode'), st.sampled_from(sorted(calls.PRIM_DEC)),
                  st.binary(max_size=12)))


def invalid_bytes():
    return st.one_of(
        st.binary(max_size=24),
        st.sampled_from([b'\x01\x00\x01\x00\x00\x00\x04\x00\x0a\x00\x0b\xce',
                         b'\x02\x00\x01\x00\x00\x00\x02\x00\x3c\xce', b'AMQP\x00',
                         b'\x01\x00\x01\x00\x00\x00\x09\x00\x0a\x00\x0b\x00\x00\x00\xff'
                         b'\x01\xce',
                         b'\x08\x00\x00\x00\x00\x00\x00\x00']))


def call_ops():
    frames = S.any_frame_cases(big_bodies=False)
    return st.one_of(
        st.tuples(st.just('construct_default'), st.sampled_from(DEFAULT_NAMES)),
        st.tuples(st.just('construct_default'), st.sampled_from(DEFAULT_NAMES)),
        st.tuples(st.just('construct'), frames),
        st.tuples(st.just('marshal'), frames),
        st.tuples(st.just('unmarshal_valid'), wire.wire_frames()),
        st.tuples(st.just('unmarshal_valid'), wire.wire_frames()),
        st.tuples(st.just('unmarshal_invalid'), invalid_bytes()),
        prim_encode_ops(), prim_decode_ops())


def history_cases(tier):
    op = st.one_of(
        call_ops(), call_ops(), call_ops(),
        st.tuples(st.just('toggle'), st.booleans()),
        st.tuples(st.just('mutate'), st.integers(0, 50), st.integers(1, 9)),
        st.tuples(st.just('mutate'), st.integers(0, 50), st.integers(1, 9)),
    ).map(list)
    return st.fixed_dictionaries({'ops': st.lists(op, min_size=3, max_size=40)})


def default_then_mutate(tier, shard, nshards):
    """every class: construct defaults, mutate every mutable member, construct again"""
    names = [m.dotted for m in spec_table.METHODS] + ['ContentHeader',
                                                      'Basic.Properties']
    out = []
    for n in names:
        out.append({'ops': [['construct_default', n], ['mutate', 0, 1],
                            ['construct_default', n], ['mutate', 1, 2],
                            ['toggle', True], ['construct_default', n],
                            ['toggle', False], ['construct_default', n]]})
    return out[shard::nshards]


# ---------------------------------------------------------------- threads

def check_threads(case):
    from pbt.sched import Deadlock, Scheduler
    f = fresh()
    lists = [[to_call(op) for op in ops] for ops in case['threads']]
    wants = [[f.ask(False, c) for c in cl] for cl in lists]
    encode.support_deprecated_rabbitmq(False)

    def body(cl):
        def run():
            return [calls.execute(c) for c in cl]
        return run
    s = Scheduler([body(cl) for cl in lists], case['schedule'],
                  opcode=case.get('opcode', False))
    try:
        results = s.run()
    except Deadlock as e:
        raise HarnessError('scheduler: %s' % e)
    for t, (got, want, cl) in enumerate(zip(results, wants, lists)):
        if got is None:
            raise HarnessError('thread %d produced no result: %r' % (t, s.errors[t]))
        for i, (g, w) in enumerate(zip(got, want)):
            if g != w:
                raise Violation('schedule-dependent:%s' % cl[i][0],
                                'thread %d call %d %s under the drawn schedule gives '
                                '%s, fresh interpreter gives %s' %
                                (t, i, canon.short(cl[i], 120), canon.short(g, 160),
                                 canon.short(w, 160)))
    if _const_snapshot() != pristine():
        raise Violation('constants-changed', 'a class-level constant changed during '
                        'the concurrent phase')
    return {'labels': ['switches>=10' if s.switches >= 10 else 'switches<10',
                       'threads=%d' % len(lists)],
            'nontrivial': s.switches >= 10}


def thread_cases(tier):
    cl = st.lists(call_ops().map(list), min_size=1, max_size=4)
    return st.fixed_dictionaries({
        'threads': st.lists(cl, min_size=2, max_size=3),
        'schedule': st.lists(st.integers(0, 5), min_size=3, max_size=200),
        'opcode': st.just(tier == 'thorough')})


COMPONENTS = [
    Component('defaults', check_history, cases=default_then_mutate,
              shards={'quick': 8, 'thorough': 8},
              describe='every class: default construction, mutation of every returned '
                       'default, construction again (also under the legacy switch)'),
    Component('history', check_history, strategy=history_cases,
              budget={'quick': 2400, 'thorough': 48000},
              describe='generated API call histories vs fresh interpreter'),
    Component('threads', check_threads, strategy=thread_cases,
              budget={'quick': 1600, 'thorough': 32000},
              describe='2-3 threads under generated deterministic schedules'),
]
