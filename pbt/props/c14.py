"""C14 - method catalogue matches the AMQP 0-9-1 + RabbitMQ specification."""
import inspect
import re

from pbt import optchild, spec_table
from pbt.lib import commands
from pbt.runner import Component, Violation

PROPERTY_ID = 'C14'
LEVEL = 'exploration'
EXHAUSTIVE = True
DESIGN_REF = 'DESIGN.md section 5, C14; Appendix A'
TECHNIQUE = ('exhaustive enumeration of every (class, attribute, facet) obligation of the '
             'generated catalogue against an independently transcribed specification table')
RULE = ('finite domain, enumerated completely: one obligation per (method class | '
        'Basic.Properties | the index mapping | an AMQP class container) x facet (index, '
        'frame id, dotted name, identity of commands.<Class>.<Method>, __slots__ / '
        'attributes() order, wire type of each argument, synchronous flag, reply list, '
        'replies in same class and in the mapping, constructor default == spec default == '
        'docstring default; property order, wire types and flag bits). Every obligation '
        'is distinct by construction and counts as non-trivial.')
ASSUMPTIONS = [
    'pbt/spec_table.py (DESIGN.md Appendix A) is a faithful transcription of the AMQP '
    '0-9-1 extended specification with the RabbitMQ extensions and of '
    'codegen/extensions.xml default overrides; cross-checked at design time against '
    'the tree and the pika type stubs',
]
LEVEL_TEXT = ('The domain (64 classes + Basic.Properties, every attribute and facet) is '
              'finite and is enumerated completely against the transcribed table: this is '
              'the degenerate, complete case of generated search, claimed as exploration '
              'with exhaustive=true, not as proof of the transcription.')
LEVEL_NOTE = 'Trusted: the transcribed specification table.'

CLASS_IDS = {'Connection': 10, 'Channel': 20, 'Exchange': 40, 'Queue': 50,
             'Basic': 60, 'Tx': 90, 'Confirm': 85}


def _cls(dotted):
    c, m = dotted.split('.')
    holder = getattr(commands, c, None)
    cls = getattr(holder, m, None) if holder is not None else None
    if cls is None:
        raise Violation('missing-class', 'commands.%s does not exist' % dotted)
    return cls


def doc_defaults(cls):
    """{param: text of the '- Default: ``...``' line} parsed from the class docstring"""
    out = {}
    doc = inspect.getdoc(cls) or ''
    cur = None
    for line in doc.splitlines():
        m = re.match(r'\s*:param (?:[\w.\[\]~]+ )?(\w+):', line)
        if m:
            cur = m.group(1)
            continue
        if re.match(r'\s*:(type|raises|rtype|returns)', line):
            cur = None
            continue
        m = re.match(r'\s*- Default: ``(.*)``\s*$', line)
        if m and cur:
            out[cur] = m.group(1)
    return out


def doc_text(default):
    if isinstance(default, str):
        return "''" if default == '' else default
    return repr(default)


def check(case):
    facet = case['facet']
    if case['cls'] == '<mapping>':
        keys = set(commands.INDEX_MAPPING)
        want = set(spec_table.BY_INDEX)
        if keys != want:
            raise Violation('mapping-keys', 'INDEX_MAPPING keys differ: missing %s '
                            'extra %s' % (sorted(map(hex, want - keys)),
                                          sorted(map(hex, keys - want))))
        classes = list(commands.INDEX_MAPPING.values())
        if len(set(classes)) != len(classes):
            raise Violation('mapping-dup', 'a class appears twice in the mapping')
        return
    if case['cls'] == '<class>':
        name = case['attr']
        holder = getattr(commands, name, None)
        if holder is None:
            raise Violation('missing-container', 'commands.%s missing' % name)
        if facet == 'frame_id' and holder.frame_id != CLASS_IDS[name]:
            raise Violation('class-id', '%s.frame_id == %r' % (name, holder.frame_id))
        if facet == 'index' and holder.index != CLASS_IDS[name] << 16:
            raise Violation('class-index', '%s.index == %r' % (name, holder.index))
        return
    if case['cls'] == 'Basic.Properties':
        return check_properties(case)
    m = spec_table.BY_NAME[case['cls']]
    cls = _cls(m.dotted)
    names = [f.name for f in m.fields]
    if facet == 'mapping':
        got = commands.INDEX_MAPPING.get(m.index)
        if got is not cls:
            raise Violation('mapping-value', 'INDEX_MAPPING[%#x] is %r, not %s' %
                            (m.index, got, m.dotted))
    elif facet == 'index':
        if cls.index != m.index or type(cls.index) is not int:
            raise Violation('index', '%s.index == %r, spec %#x' %
                            (m.dotted, cls.index, m.index))
    elif facet == 'frame_id':
        if cls.frame_id != m.method_id:
            raise Violation('frame_id', '%s.frame_id == %r, spec %d' %
                            (m.dotted, cls.frame_id, m.method_id))
    elif facet == 'name':
        if cls.name != m.dotted:
            raise Violation('name', '%s.name == %r' % (m.dotted, cls.name))
    elif facet == 'slots':
        if list(cls.__slots__) != names or list(cls.attributes()) != names:
            raise Violation('slots', '%s arguments %r, spec order %r' %
                            (m.dotted, list(cls.__slots__), names))
    elif facet == 'synchronous':
        if cls.synchronous is not bool(m.replies):
            raise Violation('synchronous', '%s.synchronous == %r with replies %r' %
                            (m.dotted, cls.synchronous, m.replies))
        if bool(cls.synchronous) != bool(cls.valid_responses):
            raise Violation('synchronous-vs-replies', '%s: synchronous %r but '
                            'valid_responses %r' % (m.dotted, cls.synchronous,
                                                    cls.valid_responses))
    elif facet == 'replies':
        if list(cls.valid_responses) != list(m.replies):
            raise Violation('replies', '%s.valid_responses == %r, spec %r' %
                            (m.dotted, cls.valid_responses, m.replies))
        mapped = {c.name for c in commands.INDEX_MAPPING.values()}
        for r in cls.valid_responses:
            if r.split('.')[0] != m.pyclass or r not in mapped:
                raise Violation('reply-class', '%s lists reply %r' % (m.dotted, r))
    elif facet == 'type':
        f = [f for f in m.fields if f.name == case['attr']][0]
        try:
            got = cls.amqp_type(f.name)
        except Exception as e:
            raise Violation('type', '%s.amqp_type(%r) raised %r' %
                            (m.dotted, f.name, e))
        if got != f.type:
            raise Violation('type', '%s.%s wire type %r, spec %r' %
                            (m.dotted, f.name, got, f.type))
    elif facet == 'default':
        f = [f for f in m.fields if f.name == case['attr']][0]
        sig = inspect.signature(cls.__init__)
        p = sig.parameters.get(f.name)
        if p is None:
            raise Violation('default', '%s.__init__ has no parameter %r' %
                            (m.dotted, f.name))
        want = f.default
        if want is spec_table.NO_DEFAULT:
            want = None
        got = p.default
        if f.type == 'table':
            ok = got is None
            if ok:
                try:
                    import warnings
                    with warnings.catch_warnings():
                        warnings.simplefilter('ignore')
                        a, b = cls(), cls()
                    va, vb = getattr(a, f.name), getattr(b, f.name)
                    ok = va == {} and type(va) is dict and va is not vb
                except Exception:
                    pass
            if not ok:
                raise Violation('default', '%s(%s=...) default %r: a table default '
                                'must be None replaced by a fresh {}' %
                                (m.dotted, f.name, got))
        elif got != want or type(got) is not type(want):
            raise Violation('default', '%s(%s=...) default %r, spec %r' %
                            (m.dotted, f.name, got, want))
        docs = doc_defaults(cls)
        if f.type == 'table':
            wanted_doc = '{}'
        else:
            wanted_doc = None if want is None else doc_text(want)
        if docs.get(f.name) != wanted_doc:
            raise Violation('doc-default', '%s docstring default for %s is %r, '
                            'spec default %r' % (m.dotted, f.name,
                                                 docs.get(f.name), wanted_doc))
    elif facet == 'positional':
        # constructor parameters are in wire order (positional construction works)
        params = [n for n in inspect.signature(cls.__init__).parameters
                  if n != 'self'] if '__init__' in cls.__dict__ else []
        if params != names:
            raise Violation('ctor-order', '%s.__init__ parameters %r, wire order %r'
                            % (m.dotted, params, names))
    else:
        raise AssertionError(facet)


def check_properties(case):
    cls = commands.Basic.Properties
    facet = case['facet']
    names = [n for n, _, _, _ in spec_table.PROPERTIES]
    if facet == 'order':
        if list(cls.__slots__) != names or list(cls.attributes()) != names:
            raise Violation('prop-order', 'property order %r' % (cls.__slots__,))
        if set(cls.flags) != set(names):
            raise Violation('prop-flags', 'flag table keys %r' % sorted(cls.flags))
        if cls.frame_id != 60 or cls.index != 0x3C or cls.name != 'Basic.Properties':
            raise Violation('prop-ids', 'frame_id/index/name %r' %
                            ((cls.frame_id, cls.index, cls.name),))
        return
    name, _, wire, bit = [p for p in spec_table.PROPERTIES
                          if p[0] == case['attr']][0]
    if facet == 'type':
        if cls.amqp_type(name) != wire:
            raise Violation('prop-type', '%s wire type %r, spec %r' %
                            (name, cls.amqp_type(name), wire))
    elif facet == 'flag':
        if cls.flags.get(name) != 1 << bit:
            raise Violation('prop-flag', '%s flag %r, spec bit %d' %
                            (name, cls.flags.get(name), bit))
    elif facet == 'default':
        p = inspect.signature(cls.__init__).parameters.get(name)
        want = spec_table.PROPERTY_DEFAULTS[name]
        if p is None or p.default != want or type(p.default) is not type(want):
            raise Violation('prop-default', '%s default %r, spec %r' %
                            (name, getattr(p, 'default', '<none>'), want))
        if getattr(cls(), name) != want:
            raise Violation('prop-default', 'Properties().%s == %r' %
                            (name, getattr(cls(), name)))


def cases(tier, shard, nshards):
    out = [{'cls': '<mapping>', 'attr': None, 'facet': 'keys'}]
    for name in CLASS_IDS:
        out.append({'cls': '<class>', 'attr': name, 'facet': 'frame_id'})
        out.append({'cls': '<class>', 'attr': name, 'facet': 'index'})
    for m in spec_table.METHODS:
        for facet in ('mapping', 'index', 'frame_id', 'name', 'slots',
                      'synchronous', 'replies', 'positional'):
            out.append({'cls': m.dotted, 'attr': None, 'facet': facet})
        for f in m.fields:
            out.append({'cls': m.dotted, 'attr': f.name, 'facet': 'type'})
            out.append({'cls': m.dotted, 'attr': f.name, 'facet': 'default'})
    out.append({'cls': 'Basic.Properties', 'attr': None, 'facet': 'order'})
    for name, _, _, _ in spec_table.PROPERTIES:
        for facet in ('type', 'flag', 'default'):
            out.append({'cls': 'Basic.Properties', 'attr': name, 'facet': facet})
    return out[shard::nshards]


COMPONENTS = [
    Component('catalogue', check, cases=cases,
              classes=lambda c: ['facet=' + c['facet']],
              distinct_by_construction=True, exhaustive=True,
              shards={'quick': 1, 'thorough': 1},
              describe='every (class, attribute, facet) obligation'),
    Component('interpreter-flags', optchild.flagged('C14', check),
              bulk=optchild.make_bulk('C14', ['catalogue'], flags=('-O', '-OO'),
                                      skip_buckets=(('-OO', 'doc-default'),)),
              distinct_by_construction=True, exhaustive=True,
              shards={'quick': 1, 'thorough': 1},
              describe='the same obligations in child interpreters started with -O and '
                       '-OO (the docstring facet is skipped under -OO, which strips '
                       'docstrings)'),
    Component('preludes', optchild.flagged('C14', check),
              bulk=optchild.make_bulk('C14', ['catalogue'], flags=('', '-bb'),
                                      preludes=('bases', 'subclass', 'partial',
                                                'apifuzz', 'traffic'),
                                      envs=({}, {'LANG': 'de_DE.UTF-8', 'LC_ALL': ''}, {'LC_ALL': 'pt_BR.UTF-8'},
                                            {'LANG': 'tr_TR.UTF-8', 'LC_MESSAGES': 'ja_JP.UTF-8'})),
              distinct_by_construction=True, exhaustive=True,
              shards={'quick': 1, 'thorough': 1},
              describe='the same sweep in child interpreters after an application-style '
                       'prelude (accessors on the abstract bases first; application '
                       'subclasses; an abandoned first iteration of every class; the '
                       'public helper functions of every module called with 1200 '
                       'distinct integers and with frames of every class; ordinary '
                       'traffic through every class and flag combination), '
                       'also with -bb and under foreign locale environments'),
]
