"""C01 - every method frame survives encode-then-decode unchanged."""
import itertools

from pbt import refcodec, spec_table, strategies as S
from pbt.lib import call, frame, make_method, method_class
from pbt import entry
from pbt.runner import Component, Violation

PROPERTY_ID = 'C01'
LEVEL = 'exploration'
DESIGN_REF = 'DESIGN.md section 5, C01'
TECHNIQUE = ('property-based round-trip testing over all 64 method classes '
             '(Hypothesis) + deterministic sweep of every bit vector x integer extremes')
RULE = ('case = (method class, one valid value per argument, channel). Sweep: every '
        'class x every one of its 2^k bit vectors x {min,max} of every integer slot x '
        'boundary channels. Hypothesis: class uniform over the 64, values over the full '
        'width of each wire type (strings up to 255 bytes / 70 KiB incl. non-BMP, nested '
        'tables from the C03 grammar), channel 0..65535. Oracle: consumed == len(bytes), '
        'same channel, type(decoded) is the same class, every slot type-exactly equal to '
        'the constructed attribute (tables under the C03 normalisation). reassign: one object '
        'is encoded, every argument re-assigned after construction (setattr; tables also in '
        'place) and encoded again - the second encoding must decode to the second '
        'assignment. Non-trivial = has '
        '>= 1 argument and (a bit group of >= 2 bits not all equal, or a non-ASCII '
        'string, or a non-empty table, or an integer >= half range, or channel >= 256); '
        'distinct = distinct 64-bit digest of the canonical case.')
ASSUMPTIONS = [
    '"accepted argument assignment" = every slot holds a value of its wire type that the '
    "library's validators accept (names from the 71-character alphabet within the "
    'length and 255-byte limits, deprecated fields at their fixed values)',
    'table arguments are compared under the C03 normalisation',
]
LEVEL_TEXT = ('Generated-input search with a round-trip oracle: all classes, all bit '
              'vectors and integer extremes deterministically, plus tens of thousands of '
              'random argument assignments; a violation is shrunk to a replay file. Does '
              'not prove absence for unexplored string/table contents.')
LEVEL_NOTE = ('Trusted: transcribed spec table (slot names/types), normalisation oracle, '
              'Hypothesis.')


def expected_slot(value, wire_type):
    if wire_type == 'table':
        return refcodec.normalise(value or {})
    return value


def check(case):
    dotted, args, ch = case['cls'], case['args'], case['ch']
    obj = call('construct', make_method, dotted, args)
    data = call('marshal', frame.marshal, obj, ch)
    res = call('unmarshal', frame.unmarshal, data)
    if not (isinstance(res, tuple) and len(res) == 3):
        raise Violation('result-shape', 'unmarshal returned %r' % (res,))
    n, rch, out = res
    if n != len(data):
        raise Violation('consumed', 'consumed %r of %d bytes' % (n, len(data)))
    if rch != ch or type(rch) is not int:
        raise Violation('channel', 'channel %r became %r' % (ch, rch))
    if type(out) is not method_class(dotted):
        raise Violation('class', 'decoded %s as %s' % (dotted, type(out).__name__))
    m = spec_table.BY_NAME[dotted]
    for f in m.fields:
        want = expected_slot(getattr(obj, f.name), f.type)
        got = getattr(out, f.name, '<missing>')
        d = refcodec.agree(want, got, '%s.%s' % (dotted, f.name))
        if d:
            raise Violation('slot:%s:%s' % (f.type, d.kind), d)
    entry.frame_entries(obj, ch, data, out)


def _half(v, t):
    return {'octet': 128, 'short': 32768, 'long': 2**31}.get(t, 2**62) <= abs(v)


def nontrivial(case):
    m = spec_table.BY_NAME[case['cls']]
    if not m.fields:
        return False
    if case['ch'] >= 256:
        return True
    args = case['args']
    run = []
    for f in m.fields:
        v = args[f.name]
        if f.type == 'bit':
            run.append(v)
            continue
        if len(run) >= 2 and len(set(run)) > 1:
            return True
        run = []
        if f.type in ('shortstr', 'longstr') and not v.isascii():
            return True
        if f.type == 'table' and v:
            return True
        if f.type in ('octet', 'short', 'long', 'longlong') and _half(v, f.type):
            return True
    return len(run) >= 2 and len(set(run)) > 1


def classes(case):
    m = spec_table.BY_NAME[case['cls']]
    out = ['class=' + m.pyclass]
    nb = sum(1 for f in m.fields if f.type == 'bit')
    out.append('bits=%d' % nb)
    if any(f.type == 'table' and case['args'][f.name] for f in m.fields):
        out.append('nonempty-table')
    if any(f.type in ('shortstr', 'longstr') and
           len(case['args'][f.name].encode('utf-8', 'surrogatepass')) > 255
           for f in m.fields):
        out.append('string>255B')
    out.append('channel>=256' if case['ch'] >= 256 else 'channel<256')
    return out


def check_reassign(case):
    """the same object encoded, re-assigned (attribute by attribute, tables in place) and
    encoded again: the second encoding must carry the second assignment"""
    dotted, ch = case['cls'], case['ch']
    obj = call('construct', make_method, dotted, case['args'])
    first = call('marshal', frame.marshal, obj, ch)
    m = spec_table.BY_NAME[dotted]
    for f in m.fields:
        new = case['args2'][f.name]
        cur = getattr(obj, f.name)
        if f.type == 'table' and case['inplace'] and isinstance(cur, dict):
            cur.clear()
            cur.update(new)
        else:
            setattr(obj, f.name, new)
    data = call('marshal', frame.marshal, obj, ch)
    n, rch, out = call('unmarshal', frame.unmarshal, data)
    if n != len(data) or rch != ch or type(out) is not method_class(dotted):
        raise Violation('reassign:envelope', 'second encoding decodes as %s, %r of %d '
                        'bytes, channel %r' % (type(out).__name__, n, len(data), rch))
    for f in m.fields:
        want = expected_slot(case['args2'][f.name], f.type)
        d = refcodec.agree(want, getattr(out, f.name, '<missing>'),
                           '%s.%s' % (dotted, f.name))
        if d:
            raise Violation('reassign:slot:%s:%s' % (f.type, d.kind),
                            'after re-assignment: ' + d)
    # and once more on another channel, then back: channel is part of the call
    again = call('marshal', frame.marshal, obj, (ch + 1) % 65536)
    if again[1:3] != ((ch + 1) % 65536).to_bytes(2, 'big') or again[7:] != data[7:]:
        raise Violation('reassign:channel', 're-encoding on another channel changed '
                        'the payload or kept the old channel')
    return ['changed' if first != data else 'same-bytes']


def reassign_cases(tier):
    from hypothesis import strategies as st
    with_args = [m.dotted for m in spec_table.METHODS if m.fields]
    return st.sampled_from(with_args).flatmap(
        lambda d: st.fixed_dictionaries({
            'cls': st.just(d), 'ch': S.CHANNELS, 'inplace': st.booleans(),
            'args': S.method_args(d, 4, False),
            'args2': S.method_args(d, 4, False)}))


def reassign_sweep(tier, shard, nshards):
    out = []
    for m in spec_table.METHODS:
        if not m.fields:
            continue
        a1, a2 = {}, {}
        for i, f in enumerate(m.fields):
            c = S._CONSTRAINED.get((m.dotted, f.name))
            if c and c[0] == 'fixed':
                a1[f.name] = a2[f.name] = c[1]
            elif f.type in ('shortstr', 'longstr'):
                a1[f.name], a2[f.name] = 'one%d' % i, 'two%d' % i
            elif f.type == 'table':
                a1[f.name], a2[f.name] = {'a': i}, {'b': [i], 'a': None}
            elif f.type == 'bit':
                a1[f.name], a2[f.name] = False, True
            else:
                a1[f.name], a2[f.name] = 1 + i, 200 + i
        for inplace in (False, True):
            out.append({'cls': m.dotted, 'ch': 3, 'inplace': inplace, 'args': a1,
                        'args2': a2})
    return out[shard::nshards]


def check_reentrant(case):
    """while the library encodes frame A, application code re-enters the library on the
    same thread (encodes and decodes frame B): A must still come out unchanged"""
    from pbt import canon as _c
    from pbt.lib import commands
    inner = commands.Queue.Declare(0, 'inner-queue', False, True, False, False, False,
                                   {'inner': [1, 2, {'x': 'y'}]})
    seen = []

    def hook():
        data = frame.marshal(inner, 9)
        seen.append(frame.unmarshal(data)[2].queue)
    _c.ReentrantDict.hook = hook
    try:
        check(case)
    finally:
        _c.ReentrantDict.hook = None
    if not seen:
        raise Violation('reentrant:hook-not-called', 'harness: the re-entrant mapping '
                        'was never asked for its items')
    if set(seen) != {'inner-queue'}:
        raise Violation('reentrant:inner', 'the inner frame decoded as %r' % (seen,))
    return ['reentered=%d' % min(len(seen), 3)]


def reentrant_cases(tier):
    from hypothesis import strategies as st
    from pbt import canon as _c
    with_tables = [m.dotted for m in spec_table.METHODS
                   if any(f.type == 'table' for f in m.fields)]

    def wrap(case):
        m = spec_table.BY_NAME[case['cls']]
        args = dict(case['args'])
        for f in m.fields:
            if f.type == 'table':
                t = dict(args[f.name]) or {'k': 1}
                t['nested'] = _c.ReentrantDict({'deep': 1, 'a': 'b'})
                args[f.name] = _c.ReentrantDict(t)
        return dict(case, args=args)
    return st.sampled_from(with_tables).flatmap(
        lambda d: st.fixed_dictionaries({
            'cls': st.just(d), 'ch': S.CHANNELS,
            'args': S.method_args(d, 4, False)})).map(wrap)


def check_lenient(case):
    """strings the library may or may not accept (lone surrogates): if the frame is
    accepted and encoded, it must still come back unchanged"""
    try:
        obj = make_method(case['cls'], case['args'])
        data = frame.marshal(obj, case['ch'])
    except Exception:
        return {'labels': ['refused'], 'nontrivial': False}
    check(case)
    return {'labels': ['accepted'], 'nontrivial': True}


def lenient_cases(tier):
    from hypothesis import strategies as st
    slots = [(m.dotted, f.name, f.type) for m in spec_table.METHODS for f in m.fields
             if f.type in ('shortstr', 'longstr', 'table') and
             (m.dotted, f.name) not in S._CONSTRAINED]

    def build(slot, s, base, where):
        dotted, name, t = slot
        args = dict(base)
        if t == 'table':
            args[name] = {s: 1} if where else {'k': s, 'l': [s]}
        else:
            args[name] = s
        return {'cls': dotted, 'args': args, 'ch': 1}
    return st.sampled_from(slots).flatmap(
        lambda slot: st.builds(build, st.just(slot), S.surrogate_strs(),
                               S.method_args(slot[0], 3, False), st.booleans()))


_EXT = {'octet': (0, 255), 'short': (0, 65535), 'long': (0, 2**32 - 1),
        'longlong': (-2**63, 2**63 - 1)}


def sweep_cases(tier, shard, nshards):
    i = 0
    chans = [0, 1, 255, 256, 32767, 32768, 65535]
    for m in spec_table.METHODS:
        bitf = [f for f in m.fields if f.type == 'bit']
        intf = [f for f in m.fields if f.type in _EXT and
                (m.dotted, f.name) not in S._CONSTRAINED]
        fixed = {}
        for f in m.fields:
            c = S._CONSTRAINED.get((m.dotted, f.name))
            if c and c[0] == 'fixed':
                fixed[f.name] = c[1]
            elif f.type in ('shortstr', 'longstr'):
                fixed[f.name] = 'q\xe9' if not c else 'q.0'
            elif f.type == 'table':
                fixed[f.name] = {'k': -1}
        free_bits = [f for f in bitf if f.name not in fixed]
        for bv in itertools.product([False, True], repeat=len(free_bits)):
            for iv in itertools.product([0, 1], repeat=len(intf)):
                if i % nshards == shard:
                    args = dict(fixed)
                    args.update({f.name: b for f, b in zip(free_bits, bv)})
                    args.update({f.name: _EXT[f.type][k]
                                 for f, k in zip(intf, iv)})
                    yield {'cls': m.dotted, 'args': args,
                           'ch': chans[i % len(chans)]}
                i += 1


def check_offtype(case):
    """a value outside the slot's annotated type: whatever the library *accepts* must still
    come back on the same channel, in the same class and equal in value (the weaker, sound
    form of the type-exact oracle, which is only stated for the annotated types)"""
    from pbt.props import c10
    return c10.check_slot(case)


def offtype_cases(tier, shard, nshards):
    from pbt.props import c10
    return c10.offtype_sweep(tier, shard, nshards)


COMPONENTS = [
    Component('bitvectors', check, cases=sweep_cases, nontrivial=nontrivial,
              classes=classes,
              describe='every class x every bit vector x {min,max} of every free '
                       'integer slot, boundary channels in rotation'),
    Component('reassign-all', check_reassign, cases=reassign_sweep,
              nontrivial=lambda c: True, shards={'quick': 4, 'thorough': 4},
              classes=lambda c: ['inplace' if c['inplace'] else 'setattr'],
              describe='every class with arguments: encode, re-assign every argument '
                       '(setattr / table in place), encode the same object again'),
    Component('reassign', check_reassign, strategy=reassign_cases,
              nontrivial=lambda c: c['args'] != c['args2'],
              classes=lambda c: ['inplace' if c['inplace'] else 'setattr'],
              budget={'quick': 6400, 'thorough': 80000},
              describe='random first and second assignment on one object'),
    Component('reentrant', check_reentrant, strategy=reentrant_cases,
              nontrivial=lambda c: True,
              classes=lambda c: ['class=' + c['cls'].split('.')[0]],
              budget={'quick': 1600, 'thorough': 16000},
              describe='frames whose table arguments call back into the library (encode '
                       'and decode another frame on the same thread) while being encoded'),
    Component('accepted-offtypes', check_offtype, cases=offtype_cases,
              shards={'quick': 8, 'thorough': 8},
              describe='every non-bit slot of every class x values of every other Python '
                       'type: refused, or accepted and decoded equal'),
    Component('surrogates', check_lenient, strategy=lenient_cases,
              classes=lambda c: ['class=' + c['cls'].split('.')[0]],
              budget={'quick': 6400, 'thorough': 80000},
              describe='str values with lone surrogates (incl. the surrogateescape image '
                       'of valid UTF-8) in every unconstrained string / table slot: '
                       'refused, or accepted and unchanged'),
    Component('frames', check, strategy=lambda tier: S.method_cases(8, True),
              nontrivial=nontrivial, classes=classes,
              budget={'quick': 24000, 'thorough': 320000},
              describe='random valid argument assignments, all classes'),
]
