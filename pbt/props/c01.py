"""C01 - every method frame survives encode-then-decode unchanged."""
import itertools

from pbt import refcodec, spec_table, strategies as S
from pbt.lib import call, frame, make_method, method_class
from pbt.runner import Component, Violation

PROPERTY_ID = 'C01'
LEVEL = 'exploration'
DESIGN_REF = 'DESIGN.md section 5, C01'
TECHNIQUE = ('property-based round-trip testing over all 64 method classes '
             '(Hypothesis) + deterministic sweep of every bit vector x integer extremes')
RULE = ('case = (method class, one valid value per argument, channel). Sweep: every '
        'class x every one of its 2^k bit vectors x {min,max} of every integer slot x '
        'boundary channels. Hypothesis: class uniform over the 64, values over the full '
        'width of each wire type (strings up to 255 bytes / 70 KiB incl. non-BMP, nested '
        'tables from the C03 grammar), channel 0..65535. Oracle: consumed == len(bytes), '
        'same channel, type(decoded) is the same class, every slot type-exactly equal to '
        'the constructed attribute (tables under the C03 normalisation). Non-trivial = has '
        '>= 1 argument and (a bit group of >= 2 bits not all equal, or a non-ASCII '
        'string, or a non-empty table, or an integer >= half range, or channel >= 256); '
        'distinct = distinct 64-bit digest of the canonical case.')
ASSUMPTIONS = [
    '"accepted argument assignment" = every slot holds a value of its wire type that the '
    "library's validators accept (names from the 71-character alphabet within the "
    'length and 255-byte limits, deprecated fields at their fixed values)',
    'table arguments are compared under the C03 normalisation',
]
LEVEL_TEXT = ('Generated-input search with a round-trip oracle: all classes, all bit '
              'vectors and integer extremes deterministically, plus tens of thousands of '
              'random argument assignments; a violation is shrunk to a replay file. Does '
              'not prove absence for unexplored string/table contents.')
LEVEL_NOTE = ('Trusted: transcribed spec table (slot names/types), normalisation oracle, '
              'Hypothesis.')


def expected_slot(value, wire_type):
    if wire_type == 'table':
        return refcodec.normalise(value or {})
    return value


def check(case):
    dotted, args, ch = case['cls'], case['args'], case['ch']
    obj = call('construct', make_method, dotted, args)
    data = call('marshal', frame.marshal, obj, ch)
    res = call('unmarshal', frame.unmarshal, data)
    if not (isinstance(res, tuple) and len(res) == 3):
        raise Violation('result-shape', 'unmarshal returned %r' % (res,))
    n, rch, out = res
    if n != len(data):
        raise Violation('consumed', 'consumed %r of %d bytes' % (n, len(data)))
    if rch != ch or type(rch) is not int:
        raise Violation('channel', 'channel %r became %r' % (ch, rch))
    if type(out) is not method_class(dotted):
        raise Violation('class', 'decoded %s as %s' % (dotted, type(out).__name__))
    m = spec_table.BY_NAME[dotted]
    for f in m.fields:
        want = expected_slot(getattr(obj, f.name), f.type)
        got = getattr(out, f.name, '<missing>')
        d = refcodec.agree(want, got, '%s.%s' % (dotted, f.name))
        if d:
            raise Violation('slot:%s:%s' % (f.type, d.kind), d)


def _half(v, t):
    return {'octet': 128, 'short': 32768, 'long': 2**31}.get(t, 2**62) <= abs(v)


def nontrivial(case):
    m = spec_table.BY_NAME[case['cls']]
    if not m.fields:
        return False
    if case['ch'] >= 256:
        return True
    args = case['args']
    run = []
    for f in m.fields:
        v = args[f.name]
        if f.type == 'bit':
            run.append(v)
            continue
        if len(run) >= 2 and len(set(run)) > 1:
            return True
        run = []
        if f.type in ('shortstr', 'longstr') and not v.isascii():
            return True
        if f.type == 'table' and v:
            return True
        if f.type in ('octet', 'short', 'long', 'longlong') and _half(v, f.type):
            return True
    return len(run) >= 2 and len(set(run)) > 1


def classes(case):
    m = spec_table.BY_NAME[case['cls']]
    out = ['class=' + m.pyclass]
    nb = sum(1 for f in m.fields if f.type == 'bit')
    out.append('bits=%d' % nb)
    if any(f.type == 'table' and case['args'][f.name] for f in m.fields):
        out.append('nonempty-table')
    if any(f.type in ('shortstr', 'longstr') and
           len(case['args'][f.name].encode('utf-8', 'surrogatepass')) > 255
           for f in m.fields):
        out.append('string>255B')
    out.append('channel>=256' if case['ch'] >= 256 else 'channel<256')
    return out


_EXT = {'octet': (0, 255), 'short': (0, 65535), 'long': (0, 2**32 - 1),
        'longlong': (-2**63, 2**63 - 1)}


def sweep_cases(tier, shard, nshards):
    i = 0
    chans = [0, 1, 255, 256, 32767, 32768, 65535]
    for m in spec_table.METHODS:
        bitf = [f for f in m.fields if f.type == 'bit']
        intf = [f for f in m.fields if f.type in _EXT and
                (m.dotted, f.name) not in S._CONSTRAINED]
        fixed = {}
        for f in m.fields:
            c = S._CONSTRAINED.get((m.dotted, f.name))
            if c and c[0] == 'fixed':
                fixed[f.name] = c[1]
            elif f.type in ('shortstr', 'longstr'):
                fixed[f.name] = 'q\xe9' if not c else 'q.0'
            elif f.type == 'table':
                fixed[f.name] = {'k': -1}
        free_bits = [f for f in bitf if f.name not in fixed]
        for bv in itertools.product([False, True], repeat=len(free_bits)):
            for iv in itertools.product([0, 1], repeat=len(intf)):
                if i % nshards == shard:
                    args = dict(fixed)
                    args.update({f.name: b for f, b in zip(free_bits, bv)})
                    args.update({f.name: _EXT[f.type][k]
                                 for f, k in zip(intf, iv)})
                    yield {'cls': m.dotted, 'args': args,
                           'ch': chans[i % len(chans)]}
                i += 1


COMPONENTS = [
    Component('bitvectors', check, cases=sweep_cases, nontrivial=nontrivial,
              classes=classes,
              describe='every class x every bit vector x {min,max} of every free '
                       'integer slot, boundary channels in rotation'),
    Component('frames', check, strategy=lambda tier: S.method_cases(8, True),
              nontrivial=nontrivial, classes=classes,
              budget={'quick': 24000, 'thorough': 640000},
              describe='random valid argument assignments, all classes'),
]
