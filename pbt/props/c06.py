"""C06 - decoding consumes exactly one frame and ignores what follows it."""
from hypothesis import strategies as st

from pbt import canon, decode_domain as D, strategies as S
from pbt.lib import UnmarshalingException, call, dump_frame, frame, frame_kind, \
    make_frame
from pbt import fuzzrun
from pbt.runner import Component, Violation, lib_site

PROPERTY_ID = 'C06'
LEVEL = 'exploration'
DESIGN_REF = 'DESIGN.md section 5, C06'
TECHNIQUE = ('model-based stateful testing of byte-stream reassembly (operation sequences '
             'send/deliver/poll against a list model, Hypothesis-generated and shrunk) + '
             'metamorphic trailing-bytes relation + envelope invariant over mutated frames')
RULE = ('(a) concat: lists of 1..12 valid frames of all five kinds with channels, '
        'concatenated, plus a trailing byte string (random, a frame prefix, 0xCE runs, '
        '"AMQP..."); oracle: repeated decode-and-drop yields exactly the N frames (same '
        'canonical dump and channel as decoding each frame alone) and an empty buffer, '
        'and unmarshal(f + t) == unmarshal(f) for the trailing t. (b) stream: operation '
        'sequences send(frame) / deliver(k bytes) / poll executed against the naive '
        'sans-io client loop (UnmarshalingException -> wait) and a list model; invariant '
        'after every step: frames decoded so far == the first frames sent, none decoded '
        'before its last byte was delivered, everything decoded at the end. (c) envelope: '
        'valid frames with 1..3 byte substitutions / truncation / appended bytes, and '
        'random buffers behind a plausible header, headers with size fields at the edges '
        'of the 32-bit range in front of 0xCE-rich payloads, and the C08/C09 fault model '
        '(every located field of the frame catalogue rewritten); whenever decoding succeeds: object kind '
        '<-> type octet, channel == bytes 1..2, consumed == size + 8 <= len, last consumed '
        'byte 0xCE; ProtocolHeader only for input starting "AMQP", 8 consumed. '
        'Non-trivial: >= 2 frames of >= 2 kinds, or trailing bytes that start like a '
        'frame, or a successful decode of a mutated input, or a stream with a frame '
        'delivered in >= 2 pieces; distinct = digest of the case.')
ASSUMPTIONS = ['a heartbeat is always encoded on channel 0 and a protocol header reports '
               'channel 0']
LEVEL_TEXT = ('Histories (frame sequences x delivery schedules) and inputs are generated and '
              'shrunk as single values; the model is the list of frames sent. Exploration.')
LEVEL_NOTE = 'Trusted: the list model; the library encoder as producer of valid frames.'

TYPE_OF = {1: 'method', 2: 'header', 3: 'body', 8: 'heartbeat'}


def encode_frames(frames):
    out = []
    for c in frames:
        obj = call('construct', make_frame, c)
        out.append(call('marshal', frame.marshal, obj, c['ch']))
    return out


def solo(data):
    n, ch, obj = call('unmarshal-single', frame.unmarshal, data)
    if n != len(data):
        raise Violation('consumed-single', 'single frame: consumed %r of %d' %
                        (n, len(data)))
    return ch, dump_frame(obj)


def check_concat(case):
    encs = encode_frames(case['frames'])
    want = [solo(e) for e in encs]
    buf = b''.join(encs)
    got = []
    kept = []
    guard = 0
    while buf:
        guard += 1
        if guard > len(encs) + 2:
            raise Violation('no-progress', 'decode loop does not empty the buffer')
        res = call('unmarshal-stream', frame.unmarshal, buf)
        n, ch, obj = res
        if not isinstance(n, int) or n <= 0 or n > len(buf):
            raise Violation('consumed-range', 'consumed %r with %d buffered' %
                            (n, len(buf)))
        got.append((ch, dump_frame(obj), n))
        kept.append(obj)
        buf = buf[n:]
    # ... and the objects handed out earlier must not have been changed by later decodes
    for i, (obj, g) in enumerate(zip(kept, got)):
        if dump_frame(obj) != g[1]:
            raise Violation('earlier-frame-changed', 'frame %d of %d no longer is what '
                            'was decoded once the rest of the stream has been decoded' %
                            (i, len(kept)))
    if [(c, d) for c, d, _ in got] != want:
        raise Violation('sequence', 'decoded %d frames %s, sent %d' % (
            len(got), canon.short([g[1][0] for g in got]), len(want)))
    if [n for _, _, n in got] != [len(e) for e in encs]:
        raise Violation('consumed', 'consumed counts %r, frame lengths %r' %
                        ([n for _, _, n in got], [len(e) for e in encs]))
    # trailing bytes must not influence the result
    t = case['trailing']
    for e, w in zip(encs[:3], want[:3]):
        res = call('unmarshal-trailing', frame.unmarshal, e + t)
        if res[0] != len(e) or (res[1], dump_frame(res[2])) != w:
            raise Violation('trailing-dependence', 'result depends on the %d bytes '
                            'after the frame (consumed %r of %d)' %
                            (len(t), res[0], len(e)))


def concat_nontrivial(case):
    kinds = {c['kind'] for c in case['frames']}
    t = case['trailing']
    return (len(case['frames']) >= 2 and len(kinds) >= 2) or \
        t[:1] in (b'\x01', b'\x02', b'\x03', b'\x08', b'A', b'\xce')


def concat_classes(case):
    return ['frames=%d' % min(len(case['frames']), 12),
            'trailing=%s' % ('none' if not case['trailing'] else 'some')] + \
        sorted({'kind=' + c['kind'] for c in case['frames']})


def trailing_bytes():
    return st.one_of(
        st.just(b''), st.binary(max_size=40),
        st.sampled_from([b'\xce', b'\xce\xce\xce', b'AMQP', b'AMQP\x00\x00\t\x01',
                         b'\x01\x00\x01\x00\x00\x00', b'\x08\x00\x00\x00\x00\x00\x00',
                         b'\x01\x00\x01\x00\x00\x00\x04\x00\x5a\x00\x0a',
                         b'\x03\xff\xff\xff\xff\xff\xff']))


def concat_cases(tier):
    def with_variants(case, picks, others):
        # repeat some frames of the stream with the *same shape* (same class / same
        # property subset) but different values
        frames = list(case['frames'])
        for p, o in zip(picks, others):
            src = frames[p % len(frames)]
            if src['kind'] == 'header' and o['kind'] == 'header':
                props = {}
                for i, k in enumerate(src['props']):
                    v = src['props'][k]
                    props[k] = S._fit_bytes('x' + v, 255) if isinstance(v, str) else \
                        (3 - v if k == 'delivery_mode' else (v + 1) % 256) \
                        if isinstance(v, int) else v
                frames.append(dict(src, props=props, body_size=o['body_size']))
            elif src['kind'] == 'method':
                frames.append(dict(src, ch=(src['ch'] + 1) % 65536))
        return dict(case, frames=frames)
    base = st.fixed_dictionaries({
        'frames': st.lists(S.any_frame_cases(big_bodies=False), min_size=1,
                           max_size=12),
        'trailing': trailing_bytes()})
    hdr = S.header_cases().map(lambda c: dict(c, kind='header'))
    return st.builds(with_variants, base, st.lists(st.integers(0, 11), max_size=3),
                     st.lists(hdr, min_size=3, max_size=3))


def check_long_tail(case):
    """one small frame followed by a very long tail (up to 64 MiB): the result may not
    depend on how much data follows"""
    from pbt import wire
    data = wire.render_frame(wire.catalogue_frames()[case['frame']])[0]
    want = solo(data)
    fill = bytes(case['fill'])
    tail = (fill * (case['tail'] // len(fill) + 1))[:case['tail']]
    res = call('unmarshal-long-tail', frame.unmarshal, data + tail)
    if res[0] != len(data) or (res[1], dump_frame(res[2])) != want:
        raise Violation('trailing-dependence', 'a %d-byte frame followed by %d more '
                        'bytes: consumed %r, result differs from decoding it alone' %
                        (len(data), case['tail'], res[0]))
    return ['tail>=16MiB' if case['tail'] >= 2 ** 24 else 'tail<16MiB']


def long_tail_cases(tier, shard, nshards):
    sizes = sorted({2 ** k + d for k in (16, 20, 22, 24, 25, 26) for d in (-9, -8, 0, 1)} |
                   {2 ** 24 - 8 - n for n in (12, 21, 40)})
    out = []
    for i, n in enumerate(sizes):
        for fi, fidx in enumerate((0, 5, 64, 65, 66, 67)):
            out.append({'frame': fidx, 'tail': n,
                        'fill': [b'\x00', b'\xce', b'\x01\x00\x01\x00\x00\x00\x04']
                        [(i + fi) % 3]})
    return out[shard::nshards]


# ---------------------------------------------------------------- stream machine

def check_stream(case):
    frames = []             # model: (channel, dump, length) of every frame sent
    wire = b''
    delivered = 0
    consumed_total = 0
    decoded = 0
    pieces = {}

    def poll():
        nonlocal consumed_total, decoded
        while True:
            buf = wire[consumed_total:delivered]
            try:
                res = frame.unmarshal(buf)
            except UnmarshalingException:
                return
            except Exception as e:
                raise Violation('stream-exception:%s@%s' %
                                (type(e).__name__, lib_site(e)),
                                'client loop got %s with %d buffered bytes: %s' %
                                (type(e).__name__, len(buf), e))
            n, ch, obj = res
            if decoded >= len(frames):
                raise Violation('stream-phantom', 'decoded a frame that was never '
                                'sent (buffer %d bytes)' % len(buf))
            wch, wdump, wlen = frames[decoded]
            end = sum(f[2] for f in frames[:decoded + 1])
            if delivered < end:
                raise Violation('stream-early', 'frame %d decoded with %d of its '
                                'bytes still undelivered' % (decoded, end - delivered))
            if n != wlen:
                raise Violation('stream-consumed', 'frame %d: consumed %r, length '
                                '%d' % (decoded, n, wlen))
            if (ch, dump_frame(obj)) != (wch, wdump):
                raise Violation('stream-sequence', 'frame %d decoded differently '
                                'in the stream' % decoded)
            consumed_total += n
            decoded += 1

    for op in case['ops']:
        if op[0] == 'send':
            enc = encode_frames([op[1]])[0]
            ch, d = solo(enc)
            frames.append((ch, d, len(enc)))
            wire += enc
        elif op[0] == 'deliver':
            if delivered < len(wire):
                k = max(1, min(op[1], len(wire) - delivered))
                # count frames that straddle a delivery boundary
                pos, acc = delivered + k, 0
                for i, f in enumerate(frames):
                    if acc < pos < acc + f[2]:
                        pieces[i] = True
                    acc += f[2]
                delivered += k
            poll()
        else:
            poll()
    delivered = len(wire)
    poll()
    if decoded != len(frames) or consumed_total != len(wire):
        raise Violation('stream-incomplete', 'after delivering everything %d of %d '
                        'frames decoded, %d bytes left' %
                        (decoded, len(frames), len(wire) - consumed_total))
    return ['split-frames=%d' % min(len(pieces), 5)]


def stream_cases(tier):
    op = st.one_of(
        st.tuples(st.just('send'), S.any_frame_cases(big_bodies=False)),
        st.tuples(st.just('deliver'),
                  st.one_of(st.integers(1, 12), st.integers(1, 400),
                            st.sampled_from([1, 6, 7, 8, 9]))),
        st.tuples(st.just('deliver'), st.integers(1, 12)),
        st.tuples(st.just('poll')))
    return st.fixed_dictionaries({'ops': st.lists(op.map(list), min_size=2,
                                                  max_size=30)})


def stream_nontrivial(case):
    sends = sum(1 for o in case['ops'] if o[0] == 'send')
    delivers = sum(1 for o in case['ops'] if o[0] == 'deliver')
    return sends >= 1 and delivers >= 2


# ---------------------------------------------------------------- envelope clause

def mutate(data, muts):
    b = bytearray(data)
    for m in muts:
        if m[0] == 'set' and b:
            b[m[1] % len(b)] = m[2]
        elif m[0] == 'xor' and b:
            b[m[1] % len(b)] ^= (m[2] or 1)
        elif m[0] == 'trunc' and b:
            del b[len(b) - 1 - m[1] % len(b):]
        elif m[0] == 'append':
            b += m[1]
        elif m[0] == 'sethdr' and len(b) > 7:
            b[m[1] % 7] = m[2]
    return bytes(b)


def check_envelope(case):
    if 'raw' in case:
        data = case['raw']
    elif 'seed' in case or ('frame' in case and 'faults' in case):
        data = D.build(case)        # fault model shared with C08/C09
    else:
        data = mutate(encode_frames([case['frame']])[0], case['muts'])
    try:
        res = frame.unmarshal(data)
    except Exception:
        return {'labels': ['rejected'], 'nontrivial': False}
    if not (isinstance(res, tuple) and len(res) == 3):
        raise Violation('result-shape', 'unmarshal returned %r' % (res,))
    n, ch, obj = res
    kind = frame_kind(obj)
    if kind == 'protocol':
        if data[:4] != b'AMQP' or n != 8 or ch != 0 or len(data) < 8:
            raise Violation('envelope:protocol', 'ProtocolHeader returned for %s... '
                            'consumed %r channel %r' % (data[:8].hex(), n, ch))
        return {'labels': ['accepted', 'accepted-protocol'],
                'nontrivial': 'raw' in case or bool(case.get('muts'))}
    if len(data) < 8:
        raise Violation('envelope:short', 'a %d-byte input decoded as %s' %
                        (len(data), kind))
    want_kind = TYPE_OF.get(data[0])
    want_ch = int.from_bytes(data[1:3], 'big')
    want_n = int.from_bytes(data[3:7], 'big') + 8
    if kind != want_kind:
        raise Violation('envelope:kind', 'type octet %d decoded as %s' %
                        (data[0], kind))
    if ch != want_ch:
        raise Violation('envelope:channel', 'header channel %d, returned %r' %
                        (want_ch, ch))
    if n != want_n or n > len(data):
        raise Violation('envelope:consumed', 'header says %d bytes, consumed %r, '
                        'supplied %d' % (want_n, n, len(data)))
    if data[n - 1] != 0xCE:
        raise Violation('envelope:end', 'last consumed byte is %#x' % data[n - 1])
    return {'labels': ['accepted', 'accepted-' + kind], 'nontrivial': True}


def envelope_cases(tier):
    mut = st.one_of(
        st.tuples(st.just('set'), st.integers(0, 10**6), st.integers(0, 255)),
        st.tuples(st.just('xor'), st.integers(0, 10**6), st.integers(0, 255)),
        st.tuples(st.just('sethdr'), st.integers(0, 6),
                  st.one_of(st.integers(0, 255), st.sampled_from([0, 1, 2, 3, 8]))),
        st.tuples(st.just('trunc'), st.integers(0, 20)),
        st.tuples(st.just('append'), st.binary(max_size=12)),
    ).map(list)
    mutated = st.fixed_dictionaries({
        'frame': S.any_frame_cases(big_bodies=False),
        'muts': st.lists(mut, min_size=1, max_size=3)})

    def raw(t, ch, size, payload, end):
        size = min(size, len(payload))
        return bytes([t]) + ch.to_bytes(2, 'big') + size.to_bytes(4, 'big') + \
            payload[:size] + end + payload[size:]

    def wild(t, ch, size, payload):
        return bytes([t]) + ch.to_bytes(2, 'big') + size.to_bytes(4, 'big') + payload
    # size fields at the edges of the 32-bit range (misread as signed / wrapped), behind
    # payloads rich in frame-end octets
    edge_sizes = st.one_of(
        st.integers(0, 64).map(lambda k: 2**32 - 1 - k),
        st.integers(-32, 32).map(lambda k: 2**31 + k),
        st.integers(0, 64))
    ce_payload = st.one_of(
        st.integers(0, 48).map(lambda n: b'\xce' * n),
        st.lists(st.sampled_from([b'\xce', b'\xce', b'\x00', b'hello', b'\x08']),
                 max_size=24).map(b''.join))
    wild_cases = st.builds(wild, st.sampled_from([1, 2, 3, 3, 8]), S.CHANNELS,
                           edge_sizes, ce_payload).map(lambda b: {'raw': b})
    plausible = st.builds(
        raw, st.sampled_from([1, 2, 3, 8, 0, 4, 255]), S.CHANNELS,
        st.integers(0, 40), st.binary(max_size=40),
        st.sampled_from([b'\xce', b'\xce', b'\x00', b''])).map(
            lambda b: {'raw': b})
    amqp = st.builds(lambda t: {'raw': b'AMQP' + t}, st.binary(max_size=8))
    return st.one_of(mutated, mutated, plausible, amqp, wild_cases)


def envelope_nontrivial(case):
    # non-trivial = decoding succeeded on a mutated / synthetic input; decided by the
    # oracle itself (check returns {'nontrivial': ...}), this is only the default
    return False


COMPONENTS = [
    Component('concat', check_concat, strategy=concat_cases,
              nontrivial=concat_nontrivial, classes=concat_classes,
              budget={'quick': 6400, 'thorough': 128000},
              describe='N concatenated frames + trailing bytes'),
    Component('long-tail', check_long_tail, cases=long_tail_cases,
              nontrivial=lambda c: True, distinct_by_construction=True,
              describe='a small frame of each kind followed by 64 KiB .. 64 MiB of data '
                       '(sizes around every power of two, incl. 16 MiB +- the frame size)'),
    Component('stream', check_stream, strategy=stream_cases,
              nontrivial=stream_nontrivial,
              budget={'quick': 4800, 'thorough': 96000},
              describe='send/deliver/poll operation sequences vs list model'),
    Component('envelope', check_envelope, strategy=envelope_cases,
              nontrivial=envelope_nontrivial,
              budget={'quick': 16000, 'thorough': 320000},
              describe='mutated frames and synthetic buffers; invariant on success'),
    Component('fields-all', check_envelope, cases=D.field_sweep_cases,
              distinct_by_construction=True, exhaustive=True,
              describe='every located field of the frame catalogue x every rewrite mode '
                       '(incl. values that are small negatives when read signed)'),
    Component('seed-faults', check_envelope, strategy=D.seed_fault_cases,
              budget={'quick': 8000, 'thorough': 240000},
              describe='catalogue / fixture frames with 1-2 faults; envelope invariant'),
    Component('fuzz', check_envelope, bulk=fuzzrun.make_bulk('C06', 'C06', {'quick': 60000,
                                                               'thorough': 3000000}),
              distinct_by_construction=True,
              shards={'quick': 4, 'thorough': 16},
              describe='atheris coverage-guided campaigns (oracle inside the target); '
                       'every 4th campaign starts from an empty corpus'),
]
