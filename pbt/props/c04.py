"""C04 - encoded bytes equal the AMQP 0-9-1 wire format (independent reference)."""
import json
import os

from hypothesis import strategies as st

from pbt import canon, refcodec, spec_table, strategies as S
from pbt.lib import call, encode, frame, make_frame
from pbt.props import c01, c02, c03
from pbt import entry
from pbt.runner import Component, HarnessError, VERIF, Violation

PROPERTY_ID = 'C04'
LEVEL = 'exploration'
DESIGN_REF = 'DESIGN.md section 5, C04; Appendix C'
TECHNIQUE = ('differential testing against an independently written reference encoder '
             '(no struct, spec-table argument order) over generated frames and values')
RULE = ('cases are the union of the C01, C02, C03 and C18 domains (method frames incl. '
        'the bit-vector sweep, content headers incl. all 8192 presence subsets, bodies, '
        'heartbeat, protocol headers, field values/tables/arrays) plus every fixed-width '
        'primitive encoder over its full range. Oracle: frame.marshal(obj, ch) / '
        'encode.*(v) must equal, byte for byte, the output of pbt/refcodec.py, which '
        'reads the object attribute by attribute in specification order; on mismatch the '
        'first differing offset is reported. Non-trivial: as C01/C02/C03 for those '
        'domains, additionally a bit group followed by a non-bit field, or a table whose '
        'insertion order differs from sorted order; distinct = digest of the case.')
ASSUMPTIONS = [
    'the reference codec (pbt/refcodec.py) is the trusted base; it is calibrated in every '
    "run against the repository's hand-written byte fixtures (corpus/fixtures.json: 63 "
    'frames, a table, an array, 8 marshaling expectations)',
    'where the grammar allows several encodings the reference makes the choices that '
    'properties C03/C11/C12 document (smallest-fit integer ladder, f for floats, sorted '
    'keys, V for None)',
]
LEVEL_TEXT = ('Differential search: every generated encodable object is encoded by the '
              'library and by an independent reference and every byte compared, so '
              'symmetric encoder/decoder errors invisible to round trips are caught. '
              'Exploration over generated inputs, not proof.')
LEVEL_NOTE = ('Trusted: pbt/refcodec.py + pbt/spec_table.py (written from the AMQP 0-9-1 '
              'grammar, calibrated against the repository fixtures), Hypothesis.')


def first_diff(a, b):
    n = min(len(a), len(b))
    for i in range(n):
        if a[i] != b[i]:
            return i
    return n


def compare(kind, got, want):
    if type(got) is not bytes:
        raise Violation('type:' + kind, 'encoder returned %s' % type(got).__name__)
    if got != want:
        i = first_diff(got, want)
        raise Violation(
            'bytes:' + kind,
            '%s: first difference at offset %d (lengths %d vs reference %d): '
            'library ...%s... reference ...%s...' %
            (kind, i, len(got), len(want), got[max(0, i - 4):i + 8].hex(),
             want[max(0, i - 4):i + 8].hex()))


def check_frame(case):
    obj = call('construct', make_frame, case)
    k = case['kind']
    if k == 'method':
        m = spec_table.BY_NAME[case['cls']]
        values = {f.name: getattr(obj, f.name) for f in m.fields}
        want = refcodec.enc_method_frame(case['cls'], values, case['ch'])
    elif k == 'header':
        values = {n: getattr(obj.properties, n)
                  for n, _, _, _ in spec_table.PROPERTIES}
        want = refcodec.enc_header_frame(values, obj.body_size, case['ch'])
    elif k == 'body':
        want = refcodec.enc_body_frame(obj.value, case['ch'])
    elif k == 'heartbeat':
        want = refcodec.enc_heartbeat()
    else:
        want = refcodec.enc_protocol_header(obj.major_version, obj.minor_version,
                                            obj.revision)
    got = call('marshal', frame.marshal, obj, case['ch'])
    compare(k if k != 'method' else 'method:' + case['cls'].split('.')[0],
            got, want)


def check_method(case):
    check_frame(dict(case, kind='method'))


def check_header(case):
    check_frame(dict(case, kind='header'))


def check_value(case):
    pos, v = case['pos'], case['v']
    if pos == 'value':
        got = call('encode', encode.encode_table_value, v)
        want = refcodec.enc_value(v)
    elif pos == 'array':
        got = call('encode', encode.field_array, [v, None, v])
        want = refcodec.enc_array([v, None, v])
    else:
        t = {'k': v, '': 0, 'K': v}
        got = call('encode', encode.field_table, t)
        want = refcodec.enc_table(t)
    compare('value:' + pos, got, want)


PRIMS = {
    'octet': (lambda: st.integers(0, 255), lambda v: refcodec.u(v, 1)),
    'short_uint': (lambda: st.integers(0, 65535), lambda v: refcodec.u(v, 2)),
    'short_int': (lambda: st.integers(-32768, 32767), lambda v: refcodec.s(v, 2)),
    'long_uint': (lambda: st.integers(0, 2**32 - 1), lambda v: refcodec.u(v, 4)),
    'long_int': (lambda: st.integers(-2**31, 2**31 - 1),
                 lambda v: refcodec.s(v, 4)),
    'long_long_int': (lambda: st.integers(-2**63, 2**63 - 1),
                      lambda v: refcodec.s(v, 8)),
    'boolean': (st.booleans, lambda v: b'\x01' if v else b'\x00'),
    'floating_point': (S.table_floats, refcodec.f32_bits),
    'double': (lambda: st.floats(allow_nan=False) |
               st.just(float('nan')), refcodec.f64_bits),
    'decimal': (S.table_decimals, refcodec.enc_decimal),
    'short_string': (S.shortstrs, refcodec.shortstr),
    'long_string': (S.longstrs, refcodec.longstr),
    'timestamp': (lambda: S.datetimes() | S.struct_times(),
                  refcodec.enc_timestamp),
    'byte_array': (lambda: st.binary(max_size=300).map(bytearray),
                   lambda v: refcodec.u(len(v), 4) + bytes(v)),
    'table_integer': (S.table_ints, refcodec.enc_value),
}


def check_prim(case):
    name, v = case['fn'], case['v']
    got = call('encode', getattr(encode, name), v)
    compare('prim:' + name, got, PRIMS[name][1](v))
    entry.encode_entries(name, v, got)


def prim_cases(tier):
    return st.sampled_from(sorted(PRIMS)).flatmap(
        lambda n: st.fixed_dictionaries({'fn': st.just(n), 'v': PRIMS[n][0]()}))


def prim_sweep(tier, shard, nshards):
    i = 0
    for n in range(65536):
        for name in ('short_uint', 'short_int', 'octet', 'table_integer'):
            v = n - 32768 if name in ('short_int', 'table_integer') else n
            if name == 'octet' and n > 255:
                continue
            if i % nshards == shard:
                yield {'fn': name, 'v': v}
            i += 1


def other_cases(tier):
    return st.one_of(
        st.fixed_dictionaries({'kind': st.just('body'), 'data': S.bodies(),
                               'ch': S.CHANNELS}),
        st.fixed_dictionaries({'kind': st.just('heartbeat'), 'ch': S.CHANNELS}),
        st.fixed_dictionaries({'kind': st.just('protocol'), 'ch': st.just(0),
                               'version': st.tuples(st.integers(0, 255),
                                                    st.integers(0, 255),
                                                    st.integers(0, 255))}))


def _unsorted(v):
    for x in S.walk(v):
        if isinstance(x, dict) and list(x) != sorted(x):
            return True
    return False


def method_nontrivial(case):
    if c01.nontrivial(case):
        return True
    m = spec_table.BY_NAME[case['cls']]
    prev_bit = False
    for f in m.fields:
        if prev_bit and f.type != 'bit':
            return True
        prev_bit = f.type == 'bit'
    return any(f.type == 'table' and _unsorted(case['args'][f.name])
               for f in m.fields)


def value_nontrivial(case):
    return c03.nontrivial(case) or _unsorted(case['v'])


def other_nontrivial(case):
    if case['kind'] == 'body':
        return len(case['data']) > 4096 or b'\xce' in case['data'] or \
            case['ch'] >= 256
    if case['kind'] == 'protocol':
        return tuple(case['version']) != (0, 9, 1)
    return case['ch'] != 0


COMPONENTS = [
    Component('bitvectors', check_method, cases=c01.sweep_cases,
              nontrivial=method_nontrivial, classes=c01.classes,
              describe='C01 sweep: every class x bit vector x integer extremes'),
    Component('methods', check_method,
              strategy=lambda tier: S.method_cases(8, True),
              nontrivial=method_nontrivial, classes=c01.classes,
              budget={'quick': 16000, 'thorough': 240000},
              describe='random method frames, all 64 classes'),
    Component('subsets', check_header, cases=c02.subset_cases,
              nontrivial=c02.nontrivial, classes=c02.classes,
              distinct_by_construction=True, exhaustive=True,
              describe='all 8192 property subsets x 2 value sets'),
    Component('headers', check_header, strategy=c02.header_cases,
              nontrivial=c02.nontrivial, classes=c02.classes,
              budget={'quick': 8000, 'thorough': 120000},
              describe='random content headers'),
    Component('others', check_frame, strategy=other_cases,
              nontrivial=other_nontrivial,
              classes=lambda c: ['kind=' + c['kind']],
              budget={'quick': 3200, 'thorough': 32000},
              describe='bodies, heartbeats, protocol headers'),
    Component('values', check_value, strategy=c03.value_cases,
              nontrivial=value_nontrivial, classes=c03.classes,
              budget={'quick': 16000, 'thorough': 240000},
              describe='field values / arrays / tables'),
    Component('deep', check_value, strategy=c03.deep_cases,
              nontrivial=value_nontrivial, classes=c03.classes,
              budget={'quick': 3200, 'thorough': 32000},
              describe='container chains to depth 32'),
    Component('prims', check_prim, strategy=prim_cases,
              classes=lambda c: ['fn=' + c['fn']],
              budget={'quick': 16000, 'thorough': 160000},
              describe='each primitive encoder over its range'),
    Component('prim16', check_prim, cases=prim_sweep,
              classes=lambda c: ['fn=' + c['fn']],
              distinct_by_construction=True, exhaustive=True,
              describe='all 16-bit values through the 16-bit / octet / table '
                       'integer encoders'),
]


def selftest():
    """Calibrate the reference codec against the repository's hand-written fixtures."""
    with open(os.path.join(VERIF, 'corpus', 'fixtures.json')) as f:
        fx = json.load(f)
    bad = []
    for it in fx['fixtures']:
        data = bytes.fromhex(it['data'])
        n, ch, kind, detail = refcodec.dec_frame(data)
        if n != len(data):
            bad.append((it['test'], 'consumed'))
        if kind == 'method':
            dotted, values = detail
            if it.get('name') and it['name'] != dotted:
                bad.append((it['test'], 'name %s vs %s' % (it['name'], dotted)))
            if 'expectation' in it:
                exp = canon.from_json(it['expectation'])
                if set(exp) != set(values):
                    bad.append((it['test'], 'slot names'))
                for k, v in exp.items():
                    d = refcodec.agree(values.get(k), v)
                    if d:
                        bad.append((it['test'], str(d)))
            if it.get('reencodes') and \
                    refcodec.enc_method_frame(dotted, values, ch) != data:
                bad.append((it['test'], 'reference re-encoding differs'))
    for it in fx['values']:
        data = bytes.fromhex(it['data'])
        want = canon.from_json(it['value'])
        if it['kind'] == 'table':
            got, end = refcodec.dec_table(data, 0)
        else:
            got, end = refcodec.dec_array(data, 0)
        if end != len(data):
            bad.append((it['kind'], 'consumed'))
        # fixture floats are doubles sent as 'f': compare under normalisation
        d = refcodec.agree(got, refcodec.normalise(want))
        if d:
            bad.append((it['kind'], str(d)))
    for it in fx['marshaled']:
        data = bytes.fromhex(it['data'])
        n, ch, kind, detail = refcodec.dec_frame(data)
        if kind == 'method':
            again = refcodec.enc_method_frame(detail[0], detail[1], ch)
        elif kind == 'header':
            again = refcodec.enc_header_frame(detail[3], detail[2], ch)
        elif kind == 'heartbeat':
            again = refcodec.enc_heartbeat()
        elif kind == 'protocol':
            again = refcodec.enc_protocol_header(*detail)
        else:
            again = refcodec.enc_body_frame(detail, ch)
        if again != data:
            bad.append((it['test'], 'reference encoder differs from fixture'))
    if bad:
        raise HarnessError('reference codec disagrees with repository fixtures: %r'
                           % bad[:5])
