"""C11 - table integers use the smallest fitting type; legacy mode restricts types."""
from hypothesis import strategies as st

from pbt import canon, refcodec, strategies as S
from pbt.lib import encode
from pbt.runner import Component, Violation

PROPERTY_ID = 'C11'
LEVEL = 'exploration'
DESIGN_REF = 'DESIGN.md section 5, C11'
TECHNIQUE = ('exhaustive integer sweep in both modes against a reference ladder + '
             'model-based stateful testing of the legacy switch (operation sequences '
             'on/set/encode against a one-boolean model, generated and shrunk by Hypothesis)')
RULE = ('(ladder) every integer in [-70000,70000] (thorough: [-2^22,2^22]) and within +-2 of every boundary of both '
        'ladders x mode {default, legacy via explicit True, legacy via the argument-less '
        'call} x position {bare, in an array, in a table, nested 3 deep, in an array after a '
        'numerically equal float / Decimal / bool}: the emitted type '
        'tag and width of every integer (found by walking the output with the reference '
        'decoder) must be the first of b,s,u,I,i,l (legacy: b,s,I,l) that fits. (wide) '
        'uniform 64-bit integers and integers up to +-2^200: outside [-2^63,2^63-1] => '
        'TypeError in both modes, same accepted set. (fixed) short_int / short_uint / '
        'long_int / long_uint / long_long_int: in range => reference bytes, out of range => '
        'TypeError. (machine) sequences of on() / set(True) / set(False) / encode(int, '
        'position) / encode_fixed; model = one boolean; after set(False) the full ladder '
        'is back; the switch is restored after every case; (machine-threads) the same with '
        'every operation executed on one of 2-3 long-lived threads, one at a time - the '
        'switch is process-wide whichever thread sets it. Non-trivial = value within +-2 '
        'of a boundary, or a toggle followed by an encode, or a nested position under '
        'legacy mode; distinct = digest of the case.')
ASSUMPTIONS = ['the ladders are the ones written in the property text']
LEVEL_TEXT = ('Exhaustive over the stated integer window in both configurations; toggle '
              'histories generated as operation sequences against a model. Exploration for '
              'the unbounded remainder.')
LEVEL_NOTE = 'Trusted: the reference ladder in pbt/refcodec.py (written from the statement).'

INT_TAGS = set('bBsuIilL')
WIDTH = {'b': 1, 's': 2, 'u': 2, 'I': 4, 'i': 4, 'l': 8}


def place(n, pos):
    if pos == 'top':
        return 'value', n
    if pos == 'mixed-array':             # n among integers of other signs and sizes
        return 'array', [n, 5, -200, 70000, -n if abs(n) < 2 ** 63 else 0, 200,
                         -70000, 40000, n, -3000000000, 3000000000]
    if pos == 'int-subclass':            # e.g. an enum.IntEnum / IntFlag member
        sub_ = canon.IntSub(n)
        return 'array', [sub_, {'k': sub_, 'j': [sub_]}]
    if pos == 'after-equal-float':       # a numerically equal float / Decimal / bool first
        import decimal
        twins = []
        if abs(n) < 2 ** 24:            # exactly representable in single precision
            twins.append(float(n))
        if abs(n) < 2 ** 31:
            twins.append(decimal.Decimal(n))
        if n in (0, 1):
            twins.append(bool(n))
        return 'array', twins + [n, {'k': n}] + twins
    if pos == 'array':
        return 'array', [n, 'x', n]
    if pos == 'table':
        return 'table', {'k': n, 'j': None}
    return 'table', {'a': [{'b': [n, {'c': n}]}, n]}


def encode_at(n, pos):
    kind, v = place(n, pos)
    if kind == 'value':
        return kind, encode.encode_table_value(v) if pos != 'raw' else \
            encode.table_integer(v)
    if kind == 'array':
        return kind, encode.field_array(v)
    return kind, encode.field_table(v)


def verify(n, pos, legacy, how):
    """encode n at pos under the current switch; compare with the reference ladder"""
    try:
        want = refcodec.int_tag(n, legacy)
    except refcodec.Refuse:
        want = None
    try:
        kind, data = encode_at(n, pos)
    except TypeError as e:
        if want is None:
            return 'refused'
        raise Violation('refuses-encodable:%s' % ('legacy' if legacy else 'default'),
                        'integer %d (%s, legacy=%s via %s) refused: %s' %
                        (n, pos, legacy, how, e))
    except Exception as e:
        raise Violation('wrong-exception:%s' % type(e).__name__,
                        'integer %d (%s, legacy=%s) raised %s: %s' %
                        (n, pos, legacy, type(e).__name__, e))
    if want is None:
        raise Violation('accepts-out-of-range',
                        'integer %d outside [-2^63, 2^63-1] encoded as %s' %
                        (n, data[:12].hex()))
    tags = [t for t in refcodec.walk_tags(data, 0, kind) if t in INT_TAGS]
    expect = place(n, pos)
    if pos == 'mixed-array':
        # every element has its own first-fitting rung
        each = [refcodec.int_tag(x, legacy)[0] for x in expect[1]]
        if tags != each:
            raise Violation('tag-mixed:%s' % ('legacy' if legacy else 'default'),
                            'array %r with legacy=%s (via %s): tags %r, expected %r' %
                            (expect[1], legacy, how, tags, each))
        return want[0]
    count = sum(1 for x in S.walk(expect[1]) if type(x) in (int, canon.IntSub))
    if len(tags) != count or any(t != want[0] for t in tags):
        raise Violation('tag:%s:%s' % ('legacy' if legacy else 'default', want[0]),
                        'integer %d at %s with legacy=%s (via %s): tags %r, expected '
                        '%d x %r' % (n, pos, legacy, how, tags, count, want[0]))
    if pos == 'top' and len(data) != 1 + want[1]:
        raise Violation('width', 'integer %d encoded in %d bytes' % (n, len(data)))
    return want[0]


def with_mode(mode, fn):
    """mode: 'default' | 'legacy-arg' | 'legacy-noarg'"""
    try:
        if mode == 'legacy-arg':
            encode.support_deprecated_rabbitmq(True)
        elif mode == 'legacy-noarg':
            encode.support_deprecated_rabbitmq()
        else:
            encode.support_deprecated_rabbitmq(False)
        return fn()
    finally:
        encode.support_deprecated_rabbitmq(False)


POSITIONS = ['top', 'array', 'table', 'nested', 'after-equal-float', 'int-subclass',
             'mixed-array']
MODES = ['default', 'legacy-arg', 'legacy-noarg']


def check_int(case):
    n, pos, mode = case['n'], case['pos'], case['mode']
    tag = with_mode(mode, lambda: verify(n, pos, mode != 'default', mode))
    return ['tag=' + tag, 'mode=' + mode]


def int_nontrivial(case):
    return S.near_edge(case['n']) or (case['mode'] != 'default' and
                                      case['pos'] == 'nested')


def ladder_bulk(tier, shard, nshards, rec):
    span = 70000 if tier == 'quick' else 2 ** 22      # thorough: [-2^22, 2^22]
    ints = list(range(-span, span + 1)) + [e for e in S.LADDER_EDGES if abs(e) > span]
    mine = ints[shard::nshards]
    n = nt = 0
    for mode in MODES:
        legacy = mode != 'default'

        def run():
            nonlocal n, nt
            from pbt.runner import set_logging
            for k, v in enumerate(mine):
                if k % 1024 == 0:
                    set_logging(k % 2048 == 0)
                pos = POSITIONS[k % 7]
                n += 1
                if S.near_edge(v) or (legacy and pos == 'nested'):
                    nt += 1
                try:
                    verify(v, pos, legacy, mode)
                except Violation as e:
                    rec.fail(e.bucket, {'n': v, 'pos': pos, 'mode': mode}, e.message)
        with_mode(mode, run)
    rec.count(n, nt, 'ladder')
    rec.sample({'n': mine[0], 'pos': 'top', 'mode': 'legacy-noarg'})


def wide_cases(tier):
    return st.fixed_dictionaries({
        'n': st.one_of(st.integers(-2**63, 2**63 - 1), st.integers(-2**200, 2**200),
                       st.sampled_from(S.LADDER_EDGES),
                       st.integers(-2**65, 2**65)),
        'pos': st.sampled_from(POSITIONS), 'mode': st.sampled_from(MODES)})


FIXED = {'short_int': (2, True), 'short_uint': (2, False), 'long_int': (4, True),
         'long_uint': (4, False), 'long_long_int': (8, True)}


def verify_fixed(fn, n):
    width, signed = FIXED[fn]
    lo = -(1 << (8 * width - 1)) if signed else 0
    hi = (1 << (8 * width - 1)) - 1 if signed else (1 << (8 * width)) - 1
    try:
        data = getattr(encode, fn)(n)
    except TypeError:
        if lo <= n <= hi:
            raise Violation('fixed-refuses:' + fn, 'encode.%s(%d) refused' % (fn, n))
        return 'refused'
    except Exception as e:
        raise Violation('fixed-wrong-exception:%s:%s' % (fn, type(e).__name__),
                        'encode.%s(%d) raised %s instead of TypeError: %s' %
                        (fn, n, type(e).__name__, e))
    if not lo <= n <= hi:
        raise Violation('fixed-accepts:' + fn, 'encode.%s(%d) returned %s' %
                        (fn, n, data.hex()))
    want = refcodec.s(n, width) if signed else refcodec.u(n, width)
    if data != want:
        raise Violation('fixed-bytes:' + fn, 'encode.%s(%d) == %s, expected %s' %
                        (fn, n, data.hex(), want.hex()))
    return 'accepted'


def check_fixed(case):
    return [verify_fixed(case['fn'], case['n'])]


def fixed_sweep(tier, shard, nshards):
    i = 0
    for fn, (width, signed) in FIXED.items():
        edges = {e + d for e in (0, 1 << (8 * width - 1), 1 << (8 * width),
                                 -(1 << (8 * width - 1)), -(1 << (8 * width)))
                 for d in range(-3, 4)}
        for n in sorted(edges | set(range(-300, 300))):
            if i % nshards == shard:
                yield {'fn': fn, 'n': n}
            i += 1


def fixed_cases(tier):
    return st.fixed_dictionaries({'fn': st.sampled_from(sorted(FIXED)),
                                  'n': st.one_of(st.integers(-2**70, 2**70),
                                                 st.integers(-70000, 70000),
                                                 st.sampled_from(S.LADDER_EDGES))})


def fixed_nontrivial(case):
    width, signed = FIXED[case['fn']]
    return any(abs(case['n'] - e) <= 3 for e in
               (0, 1 << (8 * width - 1), 1 << (8 * width), -(1 << (8 * width - 1))))


# ---------------------------------------------------------------- switch machine

def check_machine(case):
    model = False
    encodes_after_toggle = 0
    toggled = False
    try:
        encode.support_deprecated_rabbitmq(False)
        for op in case['ops']:
            if op[0] == 'on':
                encode.support_deprecated_rabbitmq()
                model, toggled = True, True
            elif op[0] == 'set':
                encode.support_deprecated_rabbitmq(op[1])
                model, toggled = bool(op[1]), True
            elif op[0] == 'encode':
                verify(op[1], op[2], model, 'machine')
                if toggled:
                    encodes_after_toggle += 1
            elif op[0] == 'fixed':
                verify_fixed(op[1], op[2])
    finally:
        encode.support_deprecated_rabbitmq(False)
    # after switching off the full ladder is back
    for n, tag in ((40000, 'u'), (3000000000, 'i')):
        got = encode.table_integer(n)[:1].decode()
        if got != tag:
            raise Violation('not-restored', 'after set(False) %d encodes as %r' %
                            (n, got))
    return {'labels': ['encodes-after-toggle=%d' % min(encodes_after_toggle, 5)],
            'nontrivial': encodes_after_toggle > 0}


def check_machine_threads(case):
    """the same machine, but every operation runs on one of 2-3 long-lived threads (one at a
    time): the switch is process-wide, whichever thread sets it"""
    from pbt.sched import ThreadPoolSeq
    pool = ThreadPoolSeq(case['threads'])
    model = False
    cross = 0
    last_toggler = None
    try:
        pool.call(0, lambda: encode.support_deprecated_rabbitmq(False))
        for op in case['ops']:
            tid = op[1]
            if op[0] == 'on':
                pool.call(tid, lambda: encode.support_deprecated_rabbitmq())
                model, last_toggler = True, tid
            elif op[0] == 'set':
                pool.call(tid, lambda: encode.support_deprecated_rabbitmq(op[2]))
                model, last_toggler = bool(op[2]), tid
            elif op[0] == 'encode':
                if last_toggler is not None and last_toggler != tid:
                    cross += 1
                pool.call(tid, lambda: verify(op[2], op[3], model,
                                              'thread %d' % tid))
            elif op[0] == 'fixed':
                pool.call(tid, lambda: verify_fixed(op[2], op[3]))
    finally:
        try:
            pool.call(0, lambda: encode.support_deprecated_rabbitmq(False))
        finally:
            pool.close()
            encode.support_deprecated_rabbitmq(False)
    return {'labels': ['cross-thread-encodes=%d' % min(cross, 5)],
            'nontrivial': cross > 0}


def machine_thread_cases(tier):
    ints = st.one_of(st.sampled_from([40000, 3000000000, 32768, 65535, 2**31, 200,
                                      -200, -40000]),
                     st.sampled_from(S.LADDER_EDGES), st.integers(-70000, 70000))
    tid = st.integers(0, 2)
    op = st.one_of(
        st.tuples(st.just('on'), tid),
        st.tuples(st.just('set'), tid, st.booleans()),
        st.tuples(st.just('set'), tid, st.booleans()),
        st.tuples(st.just('encode'), tid, ints, st.sampled_from(POSITIONS)),
        st.tuples(st.just('encode'), tid, ints, st.sampled_from(POSITIONS)),
        st.tuples(st.just('encode'), tid, ints, st.sampled_from(POSITIONS)),
        st.tuples(st.just('fixed'), tid, st.sampled_from(sorted(FIXED)), ints),
    ).map(list)
    return st.fixed_dictionaries({'threads': st.integers(2, 3),
                                  'ops': st.lists(op, min_size=3, max_size=25)})


def machine_cases(tier):
    ints = st.one_of(st.sampled_from(S.LADDER_EDGES), st.integers(-70000, 70000),
                     st.integers(-2**64, 2**64), st.sampled_from([40000, 3000000000,
                                                                  200, -200]))
    op = st.one_of(
        st.tuples(st.just('on')),
        st.tuples(st.just('set'), st.booleans()),
        st.tuples(st.just('encode'), ints, st.sampled_from(POSITIONS)),
        st.tuples(st.just('encode'), ints, st.sampled_from(POSITIONS)),
        st.tuples(st.just('fixed'), st.sampled_from(sorted(FIXED)), ints),
    ).map(list)
    return st.fixed_dictionaries({'ops': st.lists(op, min_size=2, max_size=25)})


COMPONENTS = [
    Component('ladder', check_int, bulk=ladder_bulk, distinct_by_construction=True,
              exhaustive=True,
              describe='[-70000,70000] + boundaries x 3 modes, positions in rotation'),
    Component('wide', check_int, strategy=wide_cases, nontrivial=int_nontrivial,
              budget={'quick': 16000, 'thorough': 320000},
              describe='64-bit and beyond, all positions and modes'),
    Component('fixed-edges', check_fixed, cases=fixed_sweep,
              nontrivial=fixed_nontrivial, shards={'quick': 4, 'thorough': 4},
              distinct_by_construction=True, exhaustive=True,
              describe='fixed-width encoders around every range limit'),
    Component('fixed', check_fixed, strategy=fixed_cases,
              nontrivial=fixed_nontrivial,
              budget={'quick': 8000, 'thorough': 160000},
              describe='fixed-width encoders, random integers'),
    Component('machine-threads', check_machine_threads,
              strategy=machine_thread_cases,
              budget={'quick': 3200, 'thorough': 64000},
              describe='the switch machine with every operation placed on one of 2-3 '
                       'long-lived threads (cross-thread toggle / encode histories)'),
    Component('machine', check_machine, strategy=machine_cases,
              budget={'quick': 4800, 'thorough': 96000},
              describe='toggle / encode operation sequences vs one-boolean model'),
]
