"""C19 - frames expose their arguments consistently as a mapping."""
from hypothesis import strategies as st

from pbt import canon, optchild, spec_table, strategies as S
from pbt.lib import call, commands, frame, header, make_method, make_properties, \
    method_class
from pbt.runner import Component, Violation

PROPERTY_ID = 'C19'
LEVEL = 'exploration'
DESIGN_REF = 'DESIGN.md section 5, C19'
TECHNIQUE = ('property-based testing of the mapping protocol of all 64 classes and '
             'Basic.Properties against the transcribed argument order, before and after a '
             'round trip')
RULE = ('case = (class among the 64 methods + Basic.Properties, valid constructor values, '
        'optional post-construction setattr of arbitrary values, round-trip flag). '
        'Sweep: every class with pairwise-distinguishable values, with and without round '
        'trip. Hypothesis: random values. Oracle: list(obj) == [(n, getattr(obj, n)) for '
        'n in SPEC_ORDER] (values by identity), dict(obj) equal, len(obj) == '
        'len(SPEC_ORDER), n in obj <=> n in SPEC_ORDER (negative probes: other classes\' '
        'names, "_"+n, "name", "index", "validate", ""), obj[n] is getattr(obj, n), '
        'cls.attributes() == SPEC_ORDER, cls.amqp_type(n) == SPEC_TYPE[n]; same on the '
        'decoded object. Non-trivial = class has >= 2 arguments whose values are '
        'pairwise distinguishable (canonical forms all different).')
ASSUMPTIONS = ['SPEC_ORDER / SPEC_TYPE come from the transcribed table (Appendix A)']
LEVEL_TEXT = ('All 65 classes are covered deterministically and with random values; the '
              'oracle is the transcribed wire order, so an ordering error cannot hide.')
LEVEL_NOTE = 'Trusted: transcribed argument order and types; Hypothesis.'

PROPS = 'Basic.Properties'
ALL_NAMES = sorted({f.name for m in spec_table.METHODS for f in m.fields} |
                   {p[0] for p in spec_table.PROPERTIES})


def spec_of(dotted):
    if dotted == PROPS:
        return ([p[0] for p in spec_table.PROPERTIES],
                {p[0]: p[2] for p in spec_table.PROPERTIES})
    m = spec_table.BY_NAME[dotted]
    return [f.name for f in m.fields], {f.name: f.type for f in m.fields}


def verify(obj, dotted, stage):
    order, types = spec_of(dotted)
    cls = type(obj)
    want = [(n, getattr(obj, n)) for n in order]
    try:
        items = list(obj)
        as_dict = dict(obj)
        length = len(obj)
    except Exception as e:
        raise Violation(stage + ':iter-raises', '%s: %r' % (dotted, e))
    if len(items) != len(want) or any(
            a[0] != b[0] or a[1] is not b[1] for a, b in zip(items, want)):
        raise Violation(stage + ':iter', '%s iterates as %s, expected %s' %
                        (dotted, canon.short(items), canon.short(want)))
    if list(as_dict.items()) != want:
        raise Violation(stage + ':dict', 'dict(%s) == %s' %
                        (dotted, canon.short(as_dict)))
    if length != len(order):
        raise Violation(stage + ':len', 'len(%s) == %r, %d arguments' %
                        (dotted, length, len(order)))
    for n in order:
        # none of the mapping operations may raise for a name of the list, whatever the
        # attributes hold
        if not call(stage + ':contains', lambda: n in obj):
            raise Violation(stage + ':contains', '%r not in %s' % (n, dotted))
        if call(stage + ':getitem', lambda: obj[n]) is not getattr(obj, n):
            raise Violation(stage + ':getitem', '%s[%r] is %s, the attribute is %s' %
                            (dotted, n, canon.short(obj[n], 60),
                             canon.short(getattr(obj, n), 60)))
        if call(stage + ':amqp_type', cls.amqp_type, n) != types[n]:
            raise Violation(stage + ':amqp_type', '%s.amqp_type(%r) == %r' %
                            (dotted, n, cls.amqp_type(n)))
    probes = ['name', 'index', 'validate', '', 'frame_id', 'marshal', 'flags',
              '__slots__'] + ['_' + n for n in order] + \
             [n for n in ALL_NAMES if n not in order]
    for n in probes:
        if call(stage + ':contains-extra', lambda: n in obj):
            raise Violation(stage + ':contains-extra', '%r in %s' % (n, dotted))
    if list(call(stage + ':attributes', cls.attributes)) != order:
        raise Violation(stage + ':attributes', '%s.attributes() == %r' %
                        (dotted, cls.attributes()))


def check(case):
    dotted = case['cls']
    if dotted == PROPS:
        obj = call('construct', make_properties, case['args'])
    else:
        obj = call('construct', make_method, dotted, case['args'])
    for n, v in case.get('set', {}).items():
        setattr(obj, n, obj if v == '$self' else v)
    verify(obj, dotted, 'before')
    if case.get('roundtrip') and not case.get('set'):
        if dotted == PROPS:
            data = call('marshal', frame.marshal, header.ContentHeader(0, 1, obj), 1)
            out = call('unmarshal', frame.unmarshal, data)[2].properties
        else:
            data = call('marshal', frame.marshal, obj, 1)
            out = call('unmarshal', frame.unmarshal, data)[2]
        if type(out) is not type(obj):
            raise Violation('after:class', 'decoded %s' % type(out).__name__)
        verify(out, dotted, 'after')


def nontrivial(case):
    order, _ = spec_of(case['cls'])
    if len(order) < 2:
        return False
    vals = dict(case['args'])
    vals.update(case.get('set', {}))
    forms = [canon.canon(vals.get(n)) for n in order]
    return len(set(forms)) == len(forms) if case['cls'] != PROPS else \
        len({f for f in forms if f != ('None',)}) >= 2


def classes(case):
    out = ['class=' + case['cls'].split('.')[0]]
    if case.get('roundtrip') and not case.get('set'):
        out.append('roundtrip')
    if case.get('set'):
        out.append('post-setattr')
    return out


ARBITRARY = st.one_of(st.none(), st.integers(-5, 2**70), st.text(max_size=5),
                      st.booleans(), st.floats(allow_nan=False),
                      st.lists(st.integers(0, 3), max_size=3),
                      st.dictionaries(st.text(max_size=2), st.integers(0, 3),
                                      max_size=2),
                      st.binary(max_size=4),
                      # values of types the wire never carries: the mapping protocol
                      # must hand back whatever the attribute holds
                      st.lists(st.one_of(st.integers(0, 3), st.text(max_size=2)),
                               max_size=3).map(tuple),
                      st.just(()), st.tuples(st.text(max_size=3)),
                      S.struct_times(), S.datetimes(), S.table_decimals(),
                      st.binary(max_size=4).map(bytearray),
                      st.frozensets(st.integers(0, 3), max_size=2).map(set),
                      st.just(canon.Opaque()), st.just('$self'),
                      # names as data: a table whose keys are spelled like arguments /
                      # properties (of this or another class) must not be mistaken for them
                      st.dictionaries(st.sampled_from(ALL_NAMES),
                                      st.one_of(st.integers(0, 9), st.text(max_size=3)),
                                      min_size=1, max_size=4))


def cases_strategy(tier):
    def for_class(dotted):
        order, _ = spec_of(dotted)
        if dotted == PROPS:
            args = S.property_sets()
        else:
            args = S.method_args(dotted, table_leaves=4, big=False)
        sets = st.dictionaries(st.sampled_from(order), ARBITRARY, max_size=3) \
            if order else st.just({})
        return st.fixed_dictionaries({
            'cls': st.just(dotted), 'args': args,
            'set': st.one_of(st.just({}), st.just({}), sets),
            'roundtrip': st.booleans()})
    names = [m.dotted for m in spec_table.METHODS] + [PROPS, PROPS, PROPS]
    return st.sampled_from(names).flatmap(for_class)


def _distinct_value(dotted, f, i):
    c = S._CONSTRAINED.get((dotted, f.name))
    if c and c[0] == 'fixed':
        return c[1]
    t = f.type
    if t in ('octet',):
        return 10 + i
    if t in ('short', 'long', 'longlong'):
        return 1000 + i
    if t == 'bit':
        return i % 2 == 0
    if t in ('shortstr', 'longstr'):
        return 'v%d' % i
    return {'k%d' % i: i}


def sweep(tier, shard, nshards):
    out = []
    for m in spec_table.METHODS:
        args = {f.name: _distinct_value(m.dotted, f, i)
                for i, f in enumerate(m.fields)}
        for rt in (False, True):
            out.append({'cls': m.dotted, 'args': args, 'set': {}, 'roundtrip': rt})
        if m.fields:
            out.append({'cls': m.dotted, 'args': args, 'roundtrip': False,
                        'set': {f.name: [i] for i, f in enumerate(m.fields)}})
            out.append({'cls': m.dotted, 'args': args, 'roundtrip': False,
                        'set': {f.name: ('t%d' % i, i) for i, f in enumerate(m.fields)}})
            out.append({'cls': m.dotted, 'args': args, 'roundtrip': False,
                        'set': {f.name: () for f in m.fields}})
            # self-reference: the attribute value is the very object being iterated
            out.append({'cls': m.dotted, 'args': args, 'roundtrip': False,
                        'set': {m.fields[0].name: '$self'}})
            out.append({'cls': m.dotted, 'args': args, 'roundtrip': False,
                        'set': {m.fields[-1].name: '$self'}})
    import datetime
    pv = {n: ('p%d' % i if w == 'shortstr' else 1 + i % 2 if w == 'octet' else
              {'h': i} if w == 'table' else
              datetime.datetime(2001, 1, 1, tzinfo=datetime.timezone.utc))
          for i, (n, w) in enumerate(S.SETTABLE)}
    for rt in (False, True):
        out.append({'cls': PROPS, 'args': pv, 'set': {}, 'roundtrip': rt})
    # names as data: every table-valued argument holds keys spelled like the arguments and
    # properties of all classes, while the attributes of those names are unset / default
    names_table = {n: i for i, n in enumerate(ALL_NAMES)}
    for rt in (False, True):
        out.append({'cls': PROPS, 'args': {'headers': dict(names_table)}, 'set': {},
                    'roundtrip': rt})
        out.append({'cls': PROPS, 'args': {'headers': dict(names_table),
                                           'priority': 0, 'content_type': ''},
                    'set': {}, 'roundtrip': rt})
        for m in spec_table.METHODS:
            tabs = [f.name for f in m.fields if f.type == 'table']
            if tabs:
                out.append({'cls': m.dotted, 'set': {}, 'roundtrip': rt,
                            'args': {t: dict(names_table) for t in tabs}})
    return out[shard::nshards]


COMPONENTS = [
    Component('all-classes', check, cases=sweep, nontrivial=nontrivial,
              classes=classes, shards={'quick': 4, 'thorough': 4},
              describe='every class with pairwise distinct values, before/after '
                       'round trip and with post-construction setattr'),
    Component('interpreter-flags', optchild.flagged('C19', check),
              bulk=optchild.make_bulk('C19', ['all-classes'], flags=('-O',)),
              distinct_by_construction=True, shards={'quick': 1, 'thorough': 1},
              describe='the all-classes sweep in a child interpreter started with -O'),
    Component('preludes', optchild.flagged('C19', check),
              bulk=optchild.make_bulk('C19', ['all-classes'], flags=('', '-bb'),
                                      preludes=('bases', 'subclass', 'partial',
                                                'apifuzz', 'traffic')),
              distinct_by_construction=True, shards={'quick': 1, 'thorough': 1},
              describe='the same sweep in child interpreters after an application-style '
                       'prelude (accessors on the abstract bases first; application '
                       'subclasses; an abandoned first iteration of every class; the '
                       'public helper functions of every module called with 1200 '
                       'distinct integers and with frames of every class; ordinary '
                       'traffic through every class and flag combination), '
                       'also with -bb and under foreign locale environments'),
    Component('random', check, strategy=cases_strategy, nontrivial=nontrivial,
              classes=classes, budget={'quick': 13000, 'thorough': 650000},
              describe='random values, random setattr, optional round trip'),
]
