"""C07 - incomplete frames are reported as UnmarshalingException, never as a frame."""
from pbt import optchild, strategies as S, wire
from pbt.lib import UnmarshalingException, call, frame, make_frame
from pbt.runner import Component, Violation, lib_site

PROPERTY_ID = 'C07'
LEVEL = 'fault_enumeration'
DESIGN_REF = 'DESIGN.md section 5, C07'
TECHNIQUE = ('systematic fault enumeration: every strict prefix (socket read boundary) of '
             'Hypothesis-generated valid frames of all five kinds, oracle = exception type')
RULE = ('a case is a valid frame of any of the five kinds (generated as in C01/C02/C18, '
        'encoded by the library); the fault set is every cut point 0..len-1 for frames up '
        'to 8 KiB (quick) / of any size up to 131080 bytes (thorough); larger frames in '
        'quick: every offset in the first and last 64 bytes, every power of two +-1 and '
        '256 evenly spread offsets. Oracle: unmarshal(prefix) must raise '
        'UnmarshalingException; returning anything or raising any other type is a '
        'violation. sub_evaluations counts prefixes. Non-trivial = a frame with a payload '
        '(cuts fall inside the 7-byte header, exactly at 7, inside the payload and at '
        'len-1); distinct = digest of the frame case.')
ASSUMPTIONS = ['frames are the ones the library itself encodes for generated valid inputs']
LEVEL_TEXT = ('Fault enumeration over crash points: for each generated frame all (or, for '
              'huge frames in the quick tier, a structured subset of) the points at which a '
              'socket read can end are tried. Complete per frame, sampled over frames.')
LEVEL_NOTE = 'Trusted: Hypothesis; the library encoder as producer of valid frames.'


def cut_points(n, tier):
    if n <= 8192 or tier == 'thorough':
        return range(n)
    pts = set(range(64)) | set(range(n - 64, n))
    p = 1
    while p < n:
        pts.update(x for x in (p - 1, p, p + 1) if 0 <= x < n)
        p *= 2
    pts.update(range(0, n, max(1, n // 256)))
    return sorted(pts)


def check_with(tier):
    def check(case):
        if 'wire' in case:       # a peer-made frame rendered by the reference renderer
            data = wire.render_frame(case['wire'])[0]
            k = case['wire']['kind']
        else:
            obj = call('construct', make_frame, case)
            data = call('marshal', frame.marshal, obj, case['ch'])
            k = case['kind']
        cuts = cut_points(len(data), tier)
        for cut in cuts:
            prefix = data[:cut]
            region = 'in-header' if cut < 7 else 'at-7' if cut == 7 else \
                'at-len-1' if cut == len(data) - 1 else 'in-payload'
            try:
                res = frame.unmarshal(prefix)
            except UnmarshalingException:
                continue
            except Exception as e:
                raise Violation('wrong-exception:%s:%s@%s' %
                                (k, type(e).__name__, lib_site(e)),
                                '%s frame cut at %d of %d (%s) raised %s: %s' %
                                (k, cut, len(data), region, type(e).__name__, e))
            n = res[0] if isinstance(res, tuple) and res else None
            clause = 'consumed-more-than-supplied' \
                if isinstance(n, int) and n > cut else 'returned-frame'
            raise Violation('%s:%s:%s' % (clause, k, region),
                            '%s frame cut at %d of %d (%s) returned %r' %
                            (k, cut, len(data), region, res))
        return {'sub_evaluations': len(cuts),
                'labels': ['kind=' + k,
                           'all-cuts' if len(cuts) == len(data) else 'subset-cuts']}
    return check


CHECKS = {t: check_with(t) for t in ('quick', 'thorough')}


def check(case):
    return CHECKS[case.get('tier', 'quick')](case)


def cases(tier):
    return S.any_frame_cases(big_bodies=True).map(lambda c: dict(c, tier=tier))


def nontrivial(case):
    return case.get('kind', 'wire') not in ('heartbeat', 'protocol')


def check_huge(case):
    """body frames of 16 MiB and more (the size field needs its top octet): selected
    strict prefixes must be refused"""
    n = case['size']
    payload = bytes(case['fill']) * (n // len(case['fill']) + 1)
    data = b'\x03' + case['ch'].to_bytes(2, 'big') + n.to_bytes(4, 'big') + \
        payload[:n] + b'\xce'
    k = n % (1 << 24)
    cuts = sorted({c for c in (list(range(0, 40)) + [8 + k + d for d in range(-3, 12)] +
                               [7 + n + d for d in (-2, -1, 0)] +
                               [(1 << 24) + d for d in range(-2, 12)] +
                               [1 << 16, 1 << 20, n // 2])
                   if 0 <= c < len(data)})
    for cut in cuts:
        try:
            res = frame.unmarshal(data[:cut])
        except UnmarshalingException:
            continue
        except Exception as e:
            raise Violation('wrong-exception:huge-body:%s@%s' %
                            (type(e).__name__, lib_site(e)),
                            '%d-byte body frame cut at %d raised %s' %
                            (n, cut, type(e).__name__))
        raise Violation('returned-frame:huge-body', '%d-byte body frame cut at %d of %d '
                        'returned consumed=%r' % (n, cut, len(data), res[0]))
    res = call('unmarshal', frame.unmarshal, data)
    if res[0] != len(data) or res[1] != case['ch'] or res[2].value != data[7:-1]:
        raise Violation('huge-body-roundtrip', 'complete %d-byte body frame decoded as '
                        'consumed=%r' % (n, res[0]))
    return {'sub_evaluations': len(cuts), 'labels': ['size>=16MiB']}


def huge_cases(tier, shard, nshards):
    out = []
    for size in ((1 << 24) - 1, 1 << 24, (1 << 24) + 5, (1 << 24) + 4096,
                 (1 << 25) + 1):
        for fill in ([0xCE], [0x00, 0xCE, 0x41]):
            out.append({'size': size, 'fill': fill, 'ch': 3, 'tier': tier})
    return out[shard::nshards]


def catalogue(tier, shard, nshards):
    return [{'wire': c, 'tier': tier} for c in wire.catalogue_frames()][shard::nshards]


def fixed(tier, shard, nshards):
    out = [{'kind': 'heartbeat', 'ch': 0, 'tier': tier},
           {'kind': 'protocol', 'ch': 0, 'version': (0, 9, 1), 'tier': tier},
           {'kind': 'body', 'ch': 1, 'data': b'\xce', 'tier': tier},
           {'kind': 'body', 'ch': 65535, 'data': b'\xce' * 131072, 'tier': tier},
           {'kind': 'header', 'ch': 1, 'props': {}, 'body_size': 0, 'tier': tier},
           {'kind': 'method', 'cls': 'Tx.Select', 'args': {}, 'ch': 1,
            'tier': tier}]
    return out[shard::nshards]


COMPONENTS = [
    Component('fixed', check, cases=fixed, nontrivial=nontrivial,
              shards={'quick': 6, 'thorough': 6},
              describe='smallest frame of every kind and the largest body'),
    Component('catalogue', check, cases=catalogue, nontrivial=nontrivial,
              exhaustive=True,
              describe='every strict prefix of one peer-made frame per method class '
                       '(all 19 table tags), headers with two flag words, body'),
    Component('interpreter-flags', optchild.flagged('C07', check),
              bulk=optchild.make_bulk('C07', ['fixed', 'catalogue'],
                                      flags=('-bb', '-O')),
              distinct_by_construction=True, shards={'quick': 1, 'thorough': 1},
              describe='the fixed and catalogue prefix sweeps in child interpreters '
                       'started with -bb (bytes warnings are errors) and -O'),
    Component('huge-bodies', check_huge, cases=huge_cases, nontrivial=lambda c: True,
              distinct_by_construction=True, shards={'quick': 10, 'thorough': 10},
              describe='body frames of 16 MiB - 1 .. 32 MiB + 1 bytes: prefixes around '
                       'the header, around size mod 2^24, around 2^24 and at the end'),
    Component('prefixes', check, strategy=cases, nontrivial=nontrivial,
              budget={'quick': 6400, 'thorough': 64000},
              describe='every strict prefix of generated frames of all kinds'),
]
