"""C12 - encoding is deterministic, order-independent and does not mutate its input."""
import itertools

from hypothesis import strategies as st

from pbt import canon, refcodec, spec_table, strategies as S
from pbt.lib import call, encode, frame, make_frame
from pbt.runner import Component, Violation

PROPERTY_ID = 'C12'
LEVEL = 'exploration'
DESIGN_REF = 'DESIGN.md section 5, C12'
TECHNIQUE = ('metamorphic property-based testing: repeated encoding, Hypothesis-drawn '
             'permutations of key insertion order at every nesting level, deep '
             'identity-aware snapshots before/after; bounded-exhaustive permutations of '
             '<= 5 keys')
RULE = ('(tables) field tables from the C03 grammar with >= 2 keys on >= 1 level (tables '
        'inside arrays inside tables included) plus a Hypothesis-drawn permutation applied '
        'to the insertion order of every dict at every level; (perms) all permutations of '
        '2..5 keys, at the top level and inside a nested table / array; (frames) method '
        'frames and content headers carrying such tables, bodies. Oracle: enc(x) twice '
        'gives identical bytes; enc(permuted x) == enc(x); entry names found by walking the '
        'output with the reference decoder ascend at every nesting level; a deep snapshot '
        '(types, values, dict insertion order, container identities, bytearray contents, '
        'frame attribute identities) is unchanged by encoding. Non-trivial = insertion '
        'order differs from sorted order on >= 1 level; distinct = digest of the case.')
ASSUMPTIONS = ['keys are limited to 128 characters (longer keys are documented as '
               'truncated, which could merge entries)']
LEVEL_TEXT = ('Metamorphic relations over generated tables/frames and all small '
              'permutations; exploration.')
LEVEL_NOTE = 'Trusted: the snapshot function; reference table walker; Hypothesis.'


_KEEP = []


def snapshot(v, depth=0):
    """identity-aware structure of a value.  Every container seen is also kept alive in
    _KEEP for the duration of the case, so that a replaced container cannot be given the
    id of the one it replaced (CPython recycles addresses)."""
    t = type(v)
    if t is dict:
        _KEEP.append(v)
        return ('dict', id(v), tuple((k, snapshot(x)) for k, x in v.items()))
    if t is list:
        _KEEP.append(v)
        return ('list', id(v), tuple(snapshot(x) for x in v))
    if t is bytearray:
        _KEEP.append(v)
        return ('bytearray', id(v), bytes(v))
    return (t.__name__, canon.canon(v))


def permute(v, perm, pos):
    """copy of v with every dict's insertion order permuted (choices from perm)"""
    if isinstance(v, dict):
        keys = list(v)
        for i in range(len(keys) - 1, 0, -1):
            j = perm[pos[0] % len(perm)] % (i + 1) if perm else 0
            pos[0] += 1
            keys[i], keys[j] = keys[j], keys[i]
        return {k: permute(v[k], perm, pos) for k in keys}
    if isinstance(v, list):
        return [permute(x, perm, pos) for x in v]
    if isinstance(v, bytearray):
        return bytearray(v)
    return v


def unsorted_levels(v):
    n = 0
    for x in S.walk(v):
        if isinstance(x, dict) and list(x) != sorted(x):
            n += 1
    return n


def verify_table(table, other):
    before = snapshot(table)
    a = call('encode', encode.field_table, table)
    b = call('encode', encode.field_table, table)
    if a != b:
        raise Violation('nondeterministic', 'two encodings of the same table differ')
    if snapshot(table) != before:
        raise Violation('mutates-input', 'encoding changed the table: %s' %
                        canon.short(table))
    c = call('encode', encode.field_table, other)
    if c != a:
        raise Violation('order-dependent', 'same contents, different insertion order '
                        '-> different bytes (first difference at %d)' %
                        next((i for i, (x, y) in enumerate(zip(a, c)) if x != y),
                             min(len(a), len(c))))
    for keys in refcodec.walk_table_keys(a):
        if keys != sorted(keys):
            raise Violation('not-ascending', 'entry names on the wire %r' % (keys,))


def check_table(case):
    del _KEEP[:]
    table = case['v']
    other = permute(table, case['perm'], [0])
    verify_table(table, other)
    verify_table(other, table)


def table_nontrivial(case):
    other = permute(case['v'], case['perm'], [0])
    return unsorted_levels(case['v']) + unsorted_levels(other) > 0


def table_classes(case):
    v = case['v']
    return ['levels-with>=2-keys=%d' % min(3, sum(
        1 for x in S.walk(v) if isinstance(x, dict) and len(x) >= 2)),
        'depth=%d' % min(S.depth_of(v), 6)]


def table_cases(tier):
    keys = st.one_of(
        st.text(st.characters(min_codepoint=0x61, max_codepoint=0x7a), min_size=1,
                max_size=3),
        S.table_keys(),
        # over-long keys are truncated on the wire (documented); encoding must still be
        # deterministic, order-independent and must not touch the dict
        st.sampled_from(['L' * 129, 'L' * 128 + 'b', 'L' * 127 + 'zz', 'M' * 200]))
    value = st.recursive(
        st.one_of(st.integers(-5, 300), st.booleans(), S.texts(4), st.none(),
                  st.binary(max_size=3).map(bytearray), S.table_decimals(),
                  S.datetimes()),
        lambda ch: st.one_of(st.lists(ch, max_size=3),
                             st.dictionaries(keys, ch, min_size=0, max_size=5)),
        max_leaves=14)
    return st.fixed_dictionaries({
        'v': st.dictionaries(keys, value, min_size=2, max_size=6),
        'perm': st.lists(st.integers(0, 1000), min_size=1, max_size=12)})


def perm_cases(tier, shard, nshards):
    pool = ['b', 'a', 'B', '', 'ab', 'é', 'a b', 'aa', '~', '0']
    i = 0
    for n in (2, 3, 4, 5):
        for combo in ([pool[:n]] if n == 5 else [pool[:n], pool[5:5 + n]]):
            for order in itertools.permutations(combo):
                for where in ('top', 'nested', 'array'):
                    if i % nshards == shard:
                        d = {k: j for j, k in enumerate(order)}
                        if where == 'top':
                            v = d
                        elif where == 'nested':
                            v = {'outer': d, 'z': 1}
                        else:
                            v = {'arr': [1, d, [d]], 'a': None}
                        yield {'v': v, 'perm': [i, i // 3, i // 7, 1, 2]}
                    i += 1


def check_retry(case):
    """a table with one refused leaf: the first encode raises; after the leaf is replaced in
    place (same container objects) the table must encode, twice identically, and to the
    same bytes as an equal table made of fresh objects; through a frame as well"""
    import copy
    del _KEEP[:]
    table = case['v']
    try:
        encode.field_table(table)
        first = 'accepted'
    except Exception as e:
        first = type(e).__name__
    S.repair(table)
    fresh = copy.deepcopy(table)
    a = call('encode-after-failure', encode.field_table, table)
    b = call('encode-after-failure', encode.field_table, table)
    c = call('encode-fresh-copy', encode.field_table, fresh)
    if a != b:
        raise Violation('retry-nondeterministic', 'after a refused attempt (%s) two '
                        'encodings of the repaired table differ' % first)
    if a != c:
        raise Violation('retry-differs-from-fresh', 'after a refused attempt (%s) the '
                        'repaired table encodes differently from an equal fresh table'
                        % first)
    from pbt.lib import commands, header
    h = header.ContentHeader(0, 1, commands.Basic.Properties(headers=table))
    call('marshal-after-failure', frame.marshal, h, 1)
    return ['first=' + first]


def retry_cases(tier):
    return st.fixed_dictionaries({'v': S.bad_tables()})


def check_interleaved(case):
    """encode X, then its equal-comparing twins and N distinct unrelated values (N around
    powers of two, so that any bounded memo is filled and evicted), then X again: the two
    encodings of X must be identical, and equal to those of an equal fresh table"""
    import copy
    import datetime
    del _KEEP[:]
    a, b = S.fold_pair(case['year'], case['minute'], case['micro'])
    x = {'when': b if case['order'] else a, 'n': 1, 'f': 1.5, 'd': S.decimal.Decimal('1.50')}
    first = call('encode', encode.field_table, x)
    twins = {'when': a if case['order'] else b, 'n': True, 'f': 1.5,
             'd': S.decimal.Decimal('1.5')}
    call('encode', encode.field_table, twins)
    base = datetime.datetime(2001, 1, 1, tzinfo=datetime.timezone.utc)
    for i in range(case['fill']):
        call('encode', encode.field_table,
             {'when': base + datetime.timedelta(seconds=61 * i), 'n': 1000 + i,
              'f': i + 0.5, 'd': S.decimal.Decimal(i).scaleb(-2), 'k%d' % i: 'v%d' % i})
    call('encode', encode.field_table, twins)
    second = call('encode', encode.field_table, x)
    third = call('encode', encode.field_table, copy.deepcopy(x))
    if first != second or first != third:
        raise Violation('differs-after-other-encodes', 'the same table encoded before '
                        'and after %d other encodes (incl. its equal-comparing twin) '
                        'gives different bytes' % case['fill'])
    return ['fill>=256' if case['fill'] >= 256 else 'fill<256']


def interleaved_cases(tier, shard, nshards):
    fills = sorted({0, 1, 2} | {2 ** k + d for k in (5, 7, 8, 9, 10) for d in (-1, 0, 1)})
    if tier == 'thorough':
        fills += [2047, 2048, 2049, 4095, 4096, 4097]
    out = []
    for i, fill in enumerate(fills):
        for order in (0, 1):
            out.append({'fill': fill, 'order': order, 'year': 1975 + 7 * i,
                        'minute': (13 * i) % 60, 'micro': 4567 * i % 1000000})
    return out[shard::nshards]


# ---------------------------------------------------------------- frames

def frame_snapshot(obj):
    names = getattr(type(obj), '__slots__', None) or sorted(vars(obj))
    out = []
    for n in names:
        v = getattr(obj, n, None)
        if hasattr(v, '__slots__') and not isinstance(v, (str, bytes)):
            _KEEP.append(v)
            out.append((n, id(v), frame_snapshot(v)))
        else:
            out.append((n, snapshot(v)))
    return tuple(out)


def check_frame(case):
    del _KEEP[:]
    obj = call('construct', make_frame, case)
    if case.get('late') and case['kind'] == 'header':
        # the same values, but assigned attribute by attribute after construction
        from pbt.lib import commands, header
        props = commands.Basic.Properties()
        for k, v in case['props'].items():
            setattr(props, k, v)
        obj = header.ContentHeader(0, case['body_size'], props)
    elif case.get('late') and case['kind'] == 'method':
        for k, v in case['args'].items():
            setattr(obj, k, v)
    before = frame_snapshot(obj)
    ch = case['ch']
    a = call('marshal', frame.marshal, obj, ch)
    if frame_snapshot(obj) != before:
        raise Violation('frame-mutated', 'encoding changed the %s frame object' %
                        case['kind'])
    b = call('marshal', frame.marshal, obj, ch)
    if a != b:
        raise Violation('frame-nondeterministic', 'two encodings of the same %s '
                        'frame differ' % case['kind'])
    if frame_snapshot(obj) != before:
        raise Violation('frame-mutated', 'encoding changed the %s frame object' %
                        case['kind'])
    # same frame built from permuted tables
    perm = case.get('perm') or [1]
    other_case = dict(case)
    if case['kind'] == 'method':
        other_case['args'] = {k: permute(v, perm, [0])
                              for k, v in case['args'].items()}
    elif case['kind'] == 'header':
        other_case['props'] = {k: permute(v, perm, [0])
                               for k, v in case['props'].items()}
    c = call('marshal', frame.marshal, make_frame(other_case), ch)
    if c != a:
        raise Violation('frame-order-dependent', 'same %s frame from permuted tables '
                        'encodes differently' % case['kind'])


def frame_nontrivial(case):
    vals = case.get('args') or case.get('props') or {}
    perm = case.get('perm') or [1]
    return any(unsorted_levels(v) + unsorted_levels(permute(v, perm, [0])) > 0
               for v in vals.values() if isinstance(v, dict))


def frame_cases(tier):
    perm = st.lists(st.integers(0, 1000), min_size=1, max_size=8)
    with_tables = [m.dotted for m in spec_table.METHODS
                   if any(f.type == 'table' for f in m.fields)]
    meth = st.sampled_from(with_tables).flatmap(
        lambda d: st.fixed_dictionaries({
            'kind': st.just('method'), 'cls': st.just(d), 'ch': S.CHANNELS,
            'args': S.method_args(d, table_leaves=10, big=False), 'perm': perm}))
    hdr = st.fixed_dictionaries({
        'kind': st.just('header'), 'ch': S.CHANNELS, 'body_size': S.BODY_SIZES,
        'props': S.property_sets(), 'perm': perm, 'late': st.booleans()})
    other = S.any_frame_cases(big_bodies=False)
    return st.one_of(meth, meth, hdr, other)


COMPONENTS = [
    Component('perms', check_table, cases=perm_cases, nontrivial=table_nontrivial,
              classes=table_classes, exhaustive=True,
              describe='all permutations of 2..5 keys at top level / nested / in arrays'),
    Component('tables', check_table, strategy=table_cases,
              nontrivial=table_nontrivial, classes=table_classes,
              budget={'quick': 24000, 'thorough': 640000},
              describe='random nested tables with a drawn permutation at every level'),
    Component('interleaved', check_interleaved, cases=interleaved_cases,
              nontrivial=lambda c: True, distinct_by_construction=True,
              describe='one table encoded before and after N other encodes (N around '
                       'powers of two up to 1025, thorough 4097) that include its '
                       'equal-comparing twin'),
    Component('retry', check_retry, strategy=retry_cases,
              nontrivial=lambda c: True, budget={'quick': 3200, 'thorough': 64000},
              describe='a table with one refused leaf (every kind of refusal) is encoded, '
                       'repaired in place and encoded again'),
    Component('frames', check_frame, strategy=frame_cases,
              nontrivial=frame_nontrivial,
              classes=lambda c: ['kind=' + c['kind']],
              budget={'quick': 12000, 'thorough': 320000},
              describe='frames carrying tables; repeat, permute, snapshot'),
]
