"""C08 - decoding any byte string terminates with bounded work and memory."""
import resource
import tracemalloc

from pbt import budget, canon, decode_domain as D
from pbt.lib import frame
from pbt import fuzzrun
from pbt.runner import Component, Violation

PROPERTY_ID = 'C08'
LEVEL = 'fault_enumeration'
DESIGN_REF = 'DESIGN.md section 5, C08; section 3 (step budget)'
TECHNIQUE = ('fault injection + random / dense adversarial inputs decoded under a '
             'deterministic step budget (sys.settrace line counter restricted to pamqp), '
             'result-size bound and allocation bound (tracemalloc) as oracles; '
             'coverage-guided fuzzing (atheris) in the thorough tier')
RULE = ('inputs: same domain as C09 (exhaustive single-byte substitutions and located-field '
        'rewrites of the frame catalogue incl. inflation of every length field to '
        '0x10000000 / 0x7FFFFFFF / 0xFFFFFFFF, payload truncations, Hypothesis-generated '
        'faulted wire frames, random and enveloped-random bytes up to 4 KiB (thorough 128 '
        'KiB), dense shapes: arrays of voids, empty-key tables, nesting) . Oracles: (1) '
        'line events executed inside pamqp <= 400 + 40*len(input); (2) size of the '
        'returned frame (container elements + string/byte lengths) <= 64 + 2*len(input); '
        '(3) alloc component: tracemalloc peak during decode <= 16 MiB + 512*len(input); '
        '(4) backstops: RLIMIT_AS 2 GiB, MemoryError is a violation; a worker that spends more '
        'than 90 s of CPU time on one in-flight case is stopped and that case reported '
        '(work inside C calls, e.g. a regex, executes no pamqp lines). Raising any exception '
        'within budget is fine here. Non-trivial = the decoder entered a container loop or '
        'the flag-word loop (field_table / field_array / _get_flags / BasicProperties '
        'unmarshal seen by the tracer); for bulk sweeps: input passes the frame-level '
        'guards. distinct = digest of the case.')
ASSUMPTIONS = [
    'step budget 400 + 40*len was calibrated on the current tree: the densest inputs cost '
    '<= 9 line events per input byte (> 4x head-room)',
    'the allocation bound is deliberately loose (the decoder slices value[offset:] per '
    'nesting level, transient O(depth*len) by design); it only catches allocations driven '
    'by a declared length instead of by the data',
]
LEVEL_TEXT = ('Fault enumeration with a deterministic work oracle: a hang or super-linear '
              'loop is *found* by search (budget exceeded after a few thousand line events), '
              'not waited for. Complete over the catalogue sweeps, sampled beyond; never '
              'proves absence.')
LEVEL_NOTE = ('Trusted: the line-event counter (sys.settrace), the fault model, Hypothesis. '
              'Wall clock is never a correctness signal.')

LOOPS = {'field_table', 'field_array', '_get_flags'}
WORKER_DEATH_IS_VIOLATION = True
CPU_SECONDS_PER_CASE = 90      # inputs are <= 128 KiB and decode in milliseconds
_LIMITED = [False]


def _rlimit():
    if not _LIMITED[0]:
        try:
            resource.setrlimit(resource.RLIMIT_AS, (2 << 30, 2 << 30))
        except (ValueError, OSError):
            pass
        _LIMITED[0] = True


def judge(data):
    _rlimit()
    r = budget.run(frame.unmarshal, data)
    if r.exceeded:
        raise Violation('steps@' + '+'.join(sorted(r.funcs & LOOPS) or ['other']),
                        'decoding %d bytes %s executed more than %d line events '
                        '(functions entered: %s)' %
                        (len(data), canon.short(data, 120),
                         budget.limit_for(len(data)), sorted(r.funcs)))
    if isinstance(r.exc, MemoryError):
        raise Violation('memory-error', 'MemoryError decoding %d bytes %s' %
                        (len(data), canon.short(data, 120)))
    if r.exc is None and r.value is not None:
        size = budget.result_size(r.value[2] if isinstance(r.value, tuple) and
                                  len(r.value) == 3 else r.value)
        if size > 64 + 2 * len(data):
            raise Violation('result-size', 'result of size %d from %d input bytes %s'
                            % (size, len(data), canon.short(data, 120)))
    return r


def check(case):
    data = D.build(case)
    r = judge(data)
    reached = bool(r.funcs & LOOPS)
    per_byte = r.lines / max(1, len(data))
    return {'labels': ['loops-reached' if reached else 'no-loop',
                       'lines/byte<1' if per_byte < 1 else 'lines/byte<4'
                       if per_byte < 4 else 'lines/byte<10' if per_byte < 10 else
                       'lines/byte>=10',
                       'raised' if r.exc is not None else 'returned'],
            'nontrivial': reached}


def check_alloc(case):
    _rlimit()
    data = D.build(case)
    tracemalloc.start()
    try:
        tracemalloc.reset_peak()
        base = tracemalloc.get_traced_memory()[0]
        r = budget.run(frame.unmarshal, data)
        peak = tracemalloc.get_traced_memory()[1] - base
    finally:
        tracemalloc.stop()
    if r.exceeded:
        raise Violation('steps@' + '+'.join(sorted(r.funcs & LOOPS) or ['other']),
                        'decoding %d bytes %s executed more than %d line events' %
                        (len(data), canon.short(data, 120),
                         budget.limit_for(len(data))))
    if isinstance(r.exc, MemoryError):
        raise Violation('memory-error', 'MemoryError decoding %d bytes %s' %
                        (len(data), canon.short(data, 120)))
    bound = (16 << 20) + 512 * len(data)
    if peak > bound:
        raise Violation('alloc', 'decoding %d bytes allocated %d bytes (bound %d): %s'
                        % (len(data), peak, bound, canon.short(data, 120)))
    return {'labels': ['peak<64KiB' if peak < 65536 else 'peak<1MiB'
                       if peak < (1 << 20) else 'peak>=1MiB'],
            'nontrivial': D.envelope_ok(data)}


def inflate_cases(tier, shard, nshards):
    """every located length field of every catalogue frame set to a huge value"""
    k = 0
    for i, (name, data, marks) in enumerate(D.seeds()):
        for mi, m in enumerate(marks):
            if m['kind'] not in ('len32', 'len8', 'size', 'timestamp', 'scale'):
                continue
            for mode, arg in (('big', 0), ('max7f', 0), ('ff', 0), ('min80', 0),
                              ('uniform', 0x40000000), ('uniform', 0x00FFFFFF)):
                for fix in (False, True):
                    if k % nshards == shard:
                        yield {'seed': i, 'faults': [['field', mi, mode, arg, fix]]}
                    k += 1


def byte_bulk(tier, shard, nshards, rec):
    plan = D.byte_sweep_plan(tier)[shard::nshards]
    n = nt = 0
    worst = 0.0
    from pbt.runner import set_logging
    for k, (i, off) in enumerate(plan):
        set_logging(k % 2 == 0)
        name, data, marks = D.seeds()[i]
        orig = data[off]
        b = bytearray(data)
        for val in range(256):
            if val == orig:
                continue
            b[off] = val
            mutated = bytes(b)
            n += 1
            try:
                r = judge(mutated)
                if r.funcs & LOOPS:
                    nt += 1
                worst = max(worst, r.lines / len(mutated))
            except Violation as v:
                rec.fail(v.bucket, {'seed': i, 'faults': [['byte', off, val]]},
                         v.message)
    rec.count(n, nt, 'byte-substitutions')
    rec.classes['max-lines-per-byte-x100=%d' % int(worst * 100)] += 1
    if plan:
        rec.sample({'seed': plan[0][0], 'faults': [['byte', plan[0][1], 255]]})


COMPONENTS = [
    Component('bytes-all', check, bulk=byte_bulk, distinct_by_construction=True,
              exhaustive=True,
              describe='every single-byte substitution of the seed frames'),
    Component('fields-all', check, cases=D.field_sweep_cases,
              distinct_by_construction=True, exhaustive=True,
              describe='every located field x every rewrite mode x fix-up'),
    Component('truncs-all', check, cases=D.trunc_sweep_cases,
              distinct_by_construction=True, exhaustive=True,
              describe='every payload truncation with envelope fix-up'),
    Component('inflate-alloc', check_alloc, cases=inflate_cases,
              distinct_by_construction=True, exhaustive=True,
              describe='every length field inflated; allocation bound'),
    Component('deep-faults', check, cases=D.deep_fault_cases,
              distinct_by_construction=True, exhaustive=True,
              describe='container chains of every depth 1..64 with one located field '
                       'rewritten (depth x pattern x leaf x mark x mode)'),
    Component('uniform-faults', check, cases=D.uniform_fault_cases,
              distinct_by_construction=True, exhaustive=True,
              describe='container chains (16 depths x 6 patterns x 2 keys x 3 leaves) '
                       'with one rewrite applied to every located field of one kind'),
    Component('deep-random', check, strategy=D.deep_random_cases,
              budget={'quick': 4800, 'thorough': 96000},
              describe='random chains of explicit depth 1..64 with 1-2 faults'),
    Component('dictionary', check, cases=D.dictionary_cases,
              distinct_by_construction=True,
              describe='well-formed frames built around every identifier-like literal '
                       'harvested from the tree under test (auto-dictionary)'),
    Component('wellformed', check, strategy=D.wellformed_cases,
              budget={'quick': 4800, 'thorough': 160000},
              describe='well-formed wire frames without any fault'),
    Component('hostile-keys', check, cases=D.hostile_key_cases,
              distinct_by_construction=True, exhaustive=True,
              describe='templating-hostile table keys x every way a value can fail x '
                       'nesting position x carrier frame'),
    Component('hostile-alloc', check_alloc, cases=D.hostile_key_cases,
              distinct_by_construction=True, exhaustive=True,
              describe='allocation bound over the hostile-key sweep (incl. repeated '
                       'names and printf width bombs), with logging really formatting'),
    Component('faulted', check, strategy=D.faulted_cases,
              budget={'quick': 12000, 'thorough': 480000},
              describe='generated wire frames with 1-2 faults'),
    Component('seed-faults', check, strategy=D.seed_fault_cases,
              budget={'quick': 6400, 'thorough': 240000},
              describe='catalogue / fixture frames with 1-2 faults'),
    Component('random', check, strategy=D.random_cases,
              budget={'quick': 12000, 'thorough': 480000},
              describe='random bytes, random payload behind a valid envelope'),
    Component('dense', check, strategy=D.dense_cases,
              budget={'quick': 3200, 'thorough': 64000},
              describe='dense adversarial shapes (+ faults)'),
    Component('alloc-faulted', check_alloc, strategy=D.seed_fault_cases,
              budget={'quick': 3200, 'thorough': 64000},
              describe='allocation bound on faulted catalogue frames'),
    Component('fuzz', check, bulk=fuzzrun.make_bulk('C08', 'C08', {'quick': 60000,
                                                               'thorough': 3000000}),
              distinct_by_construction=True,
              shards={'quick': 4, 'thorough': 16},
              describe='atheris coverage-guided campaigns (oracle inside the target); '
                       'every 4th campaign starts from an empty corpus'),
]
