"""C09 - every decode failure is an UnmarshalingException."""
from pbt import canon, decode_domain as D, optchild
from pbt.lib import UnmarshalingException, frame
from pbt import fuzzrun
from pbt.runner import Component, Violation, lib_site

PROPERTY_ID = 'C09'
LEVEL = 'fault_enumeration'
DESIGN_REF = 'DESIGN.md section 5, C09'
TECHNIQUE = ('fault injection into grammar-generated wire frames (located length / tag / '
             'flag / index fields, UTF-8 damage, payload truncation with envelope fix-up), '
             'exhaustive single-byte and field-rewrite sweeps over a frame catalogue, random '
             'and enveloped-random bytes; oracle = exception type; coverage-guided fuzzing '
             '(atheris) in the thorough tier')
RULE = ('inputs: (1) exhaustive: every single-byte substitution (all 255 other values) at '
        'every offset of the seed frames (quick: short fixtures + 12 catalogue frames, first '
        '80 bytes; thorough: all 69 catalogue frames + 63 repository fixtures), every '
        'rewrite of every located length/tag/flag/index/type field of every catalogue '
        'frame to {0,1,true+-1,2*true,0x7F..,0x80..,0xFF..,remaining+-1, fixed uniforms} '
        'with and without envelope fix-up, every payload truncation with fix-up; (2) '
        'Hypothesis: wire frames (pbt.wire) with 1-2 faults, random bytes 0..4 KiB '
        '(thorough 128 KiB), random payloads behind a valid envelope + method index / '
        'flag word, dense shapes. Oracle: frame.unmarshal returns, or raises '
        'UnmarshalingException; any other exception is a violation bucketed by (type, '
        'innermost pamqp frame). RecursionError is outside the domain (nesting deeper '
        'than the property allows) and only counted. Non-trivial = the input passes the '
        'frame-level guards (length, size, end octet, type 1-3) so that content decoding '
        'is reached; distinct = digest of the case.')
ASSUMPTIONS = [
    'RecursionError can only arise for nesting far deeper than 64 (about 300 levels) and '
    'is treated as out of domain',
]
LEVEL_TEXT = ('Systematic fault enumeration: complete over single-byte corruptions and '
              'located-field rewrites of a fixed frame catalogue, sampled (Hypothesis, '
              'atheris) beyond it. Escaping exception types are found by search; absence is '
              'not proven.')
LEVEL_NOTE = 'Trusted: fault model and renderer (pbt/wire.py, pbt/faults.py); Hypothesis.'


def judge(data):
    """-> outcome label, or raises Violation"""
    try:
        frame.unmarshal(data)
    except UnmarshalingException:
        return 'refused'
    except RecursionError:
        return 'recursion-out-of-domain'
    except Exception as e:
        raise Violation('escapes:%s@%s' % (type(e).__name__, lib_site(e)),
                        '%s escaped frame.unmarshal on %d bytes %s: %s' %
                        (type(e).__name__, len(data), canon.short(data, 120),
                         canon.short(str(e), 200)))
    return 'decoded'


def check(case):
    data = D.build(case)
    ok = D.envelope_ok(data)
    outcome = judge(data)
    return {'labels': [outcome, 'envelope-ok' if ok else 'envelope-bad',
                       'reached-content:' + outcome if ok else 'stopped-at-envelope'],
            'nontrivial': ok}


def _declare(key, value=b'I\x00\x00\x00\x07'):
    entry = bytes([len(key)]) + key + value
    payload = b'\x00\x32\x00\x0a\x00\x00\x01q\x00' + len(entry).to_bytes(4, 'big') + entry
    return b'\x01\x00\x01' + len(payload).to_bytes(4, 'big') + payload + b'\xce'


def long_history_bulk(tier, shard, nshards, rec):
    """one process, one long decode history: refused inputs of several kinds, each followed
    by thousands of valid frames with never-seen names - a frame that decodes alone must
    not start failing because of what was decoded (or refused) long before"""
    n_valid = 5000 if tier == 'quick' else 70000
    refusals = [_declare(b'\xff\xfe'), _declare(b'k', b'Z'), _declare(b'k', b'S\x00'),
                _declare(b'k', b'T\xff\xff\xff\xff\xff\xff\xff\xff'),
                b'\x01\x00\x01\x00\x00\x00\x02\x00\x32\xce', b'\x09\x00\x00\x00\x00\x00\x01x\xce']
    mine = refusals[shard::nshards] if shard < len(refusals) else []
    n = 0
    for ri, bad in enumerate(mine):
        judge(bad)
        for i in range(n_valid):
            key = b'h%d-%d-%07d' % (shard, ri, i)
            data = _declare(key) if i % 3 else _declare(b'outer%d' % i, b'F' + (
                len(key) + 2).to_bytes(4, 'big') + bytes([len(key)]) + key + b'V')
            n += 1
            try:
                out = judge(data)
                if out != 'decoded':
                    rec.fail('history:refuses-valid', {'raw': data},
                             'a valid frame was refused after %d earlier decodes that '
                             'followed a refused input' % i)
            except Violation as v:
                rec.fail('history:' + v.bucket, {'raw': data}, 'after a refused input '
                         'and %d valid frames: %s' % (i, v.message))
    rec.count(n, n, 'long-history')
    rec.sample({'raw': _declare(b'h-sample')})


def byte_bulk(tier, shard, nshards, rec):
    plan = D.byte_sweep_plan(tier)[shard::nshards]
    n = nt = 0
    from pbt.runner import set_logging
    for k, (i, off) in enumerate(plan):
        set_logging(k % 2 == 0)
        name, data, marks = D.seeds()[i]
        orig = data[off]
        b = bytearray(data)
        for val in range(256):
            if val == orig:
                continue
            b[off] = val
            mutated = bytes(b)
            n += 1
            if D.envelope_ok(mutated):
                nt += 1
            try:
                judge(mutated)
            except Violation as v:
                rec.fail(v.bucket, {'seed': i, 'faults': [['byte', off, val]]},
                         v.message)
    rec.count(n, nt, 'byte-substitutions')
    if plan:
        rec.sample({'seed': plan[0][0], 'faults': [['byte', plan[0][1], 255]]})


COMPONENTS = [
    Component('bytes-all', check, bulk=byte_bulk, distinct_by_construction=True,
              exhaustive=True,
              describe='every single-byte substitution of the seed frames'),
    Component('long-history', check, bulk=long_history_bulk,
              distinct_by_construction=True,
              describe='per process: a refused input of one of six kinds, then 5000 '
                       '(thorough 70000) valid frames with never-seen field names'),
    Component('fields-all', check, cases=D.field_sweep_cases,
              distinct_by_construction=True, exhaustive=True,
              describe='every located field x every rewrite mode x fix-up'),
    Component('truncs-all', check, cases=D.trunc_sweep_cases,
              distinct_by_construction=True, exhaustive=True,
              describe='every payload truncation with envelope fix-up'),
    Component('deep-faults', check, cases=D.deep_fault_cases,
              distinct_by_construction=True, exhaustive=True,
              describe='container chains of every depth 1..64 with one located field '
                       'rewritten (depth x pattern x leaf x mark x mode)'),
    Component('uniform-faults', check, cases=D.uniform_fault_cases,
              distinct_by_construction=True, exhaustive=True,
              describe='container chains (16 depths x 6 patterns x 2 keys x 3 leaves) '
                       'with one rewrite applied to every located field of one kind'),
    Component('deep-random', check, strategy=D.deep_random_cases,
              budget={'quick': 4800, 'thorough': 96000},
              describe='random chains of explicit depth 1..64 with 1-2 faults'),
    Component('dictionary', check, cases=D.dictionary_cases,
              distinct_by_construction=True,
              describe='well-formed frames built around every identifier-like literal '
                       'harvested from the tree under test (auto-dictionary)'),
    Component('wellformed', check, strategy=D.wellformed_cases,
              budget={'quick': 4800, 'thorough': 160000},
              describe='well-formed wire frames without any fault'),
    Component('interpreter-flags', optchild.flagged('C09', check),
              bulk=optchild.make_bulk('C09', ['truncs-all', 'hostile-keys'],
                                      flags=('-bb',)),
              distinct_by_construction=True, shards={'quick': 1, 'thorough': 1},
              describe='payload truncations and hostile keys in a child interpreter '
                       'started with -bb (bytes warnings are errors)'),
    Component('hostile-keys', check, cases=D.hostile_key_cases,
              distinct_by_construction=True, exhaustive=True,
              describe='templating-hostile table keys x every way a value can fail x '
                       'nesting position x carrier frame'),
    Component('faulted', check, strategy=D.faulted_cases,
              budget={'quick': 16000, 'thorough': 480000},
              describe='generated wire frames with 1-2 faults'),
    Component('seed-faults', check, strategy=D.seed_fault_cases,
              budget={'quick': 8000, 'thorough': 240000},
              describe='catalogue / fixture frames with 1-2 faults'),
    Component('random', check, strategy=D.random_cases,
              budget={'quick': 16000, 'thorough': 480000},
              describe='random bytes, random payload behind a valid envelope'),
    Component('dense', check, strategy=D.dense_cases,
              budget={'quick': 1600, 'thorough': 32000},
              describe='dense adversarial shapes (+ faults)'),
    Component('fuzz', check, bulk=fuzzrun.make_bulk('C09', 'C09', {'quick': 60000,
                                                               'thorough': 3000000}),
              distinct_by_construction=True,
              shards={'quick': 4, 'thorough': 16},
              describe='atheris coverage-guided campaigns (oracle inside the target); '
                       'every 4th campaign starts from an empty corpus'),
]
