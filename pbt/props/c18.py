"""C18 - body, heartbeat and protocol-header frames round trip on every channel."""
from hypothesis import strategies as st

from pbt import entry, strategies as S
from pbt.lib import body, call, frame, header, heartbeat
from pbt.props import c16
from pbt.runner import Component, Violation

PROPERTY_ID = 'C18'
LEVEL = 'exploration'
DESIGN_REF = 'DESIGN.md section 5, C18'
TECHNIQUE = ('property-based round-trip testing of bodies (tiled content up to 131072 '
             'bytes) + exhaustive enumeration of version triples and heartbeat channels')
RULE = ('bodies: byte strings of length 1..131072 built from a drawn <= 64-byte tile '
        '(incl. 0xCE, "AMQP", frame-header and heartbeat look-alikes) with lengths from a '
        'mixture incl. 1, 4088, 4096, 65535, 65536, 131064, 131072, x channel; oracle: '
        'unmarshal(marshal(ContentBody(b), ch)) == (len(b)+8, ch, body) with body.value '
        '== b, type bytes, len(body) == len(b). heartbeat: marshal(Heartbeat(), ch) is '
        'the fixed 8-byte frame for all 65536 channel arguments and the heartbeat frame '
        'on every channel decodes to a Heartbeat, 8 bytes, that channel. protocol header: '
        'quick = each octet through all 256 values with the others at {0,9,255}; thorough '
        '= all 256^3 triples; oracle: bytes == "AMQP" 00 a b c and decode gives the same '
        'triple, 8 consumed, channel 0. Non-trivial = body longer than 4096 or containing '
        '0xCE/"AMQP"/a frame header or channel >= 256; version != (0,9,1); heartbeat '
        'channel != 0.')
ASSUMPTIONS = ['"maximum frame size" is taken as 131072 (constants.FRAME_MAX_SIZE)']
LEVEL_TEXT = ('Round-trip search over generated bodies (all interesting lengths, adversarial '
              'content) and complete enumeration of the finite heartbeat-channel and '
              '(thorough) version-triple spaces.')
LEVEL_NOTE = 'Trusted: the literal wire layouts written in this module; Hypothesis.'

HB = b'\x08\x00\x00\x00\x00\x00\x00\xce'


def check_body(case):
    data, ch = case['data'], case['ch']
    obj = call('construct', body.ContentBody, data)
    if len(obj) != len(data):
        raise Violation('len', 'len(ContentBody) == %r for %d bytes' %
                        (len(obj), len(data)))
    enc = call('marshal', frame.marshal, obj, ch)
    want = b'\x03' + ch.to_bytes(2, 'big') + len(data).to_bytes(4, 'big') + \
        data + b'\xce'
    if enc != want:
        raise Violation('bytes', 'body frame bytes differ from 03 ch size data CE')
    n, rch, out = call('unmarshal', frame.unmarshal, enc)
    if n != len(data) + 8:
        raise Violation('consumed', 'consumed %r, expected %d' % (n, len(data) + 8))
    if rch != ch:
        raise Violation('channel', 'channel %r became %r' % (ch, rch))
    if type(out) is not body.ContentBody:
        raise Violation('class', 'decoded as %s' % type(out).__name__)
    if type(out.value) is not bytes or out.value != data:
        raise Violation('value', 'body value differs (type %s, %d bytes vs %d)' %
                        (type(out.value).__name__, len(out.value), len(data)))
    if len(out) != len(data):
        raise Violation('len', 'len(decoded body) == %r for %d bytes' %
                        (len(out), len(data)))
    entry.frame_entries(obj, ch, enc, out)


def check_reuse(case):
    """one ContentBody / ProtocolHeader object encoded, changed and encoded again"""
    obj = body.ContentBody(case['first'])
    ch = case['ch']
    call('marshal', frame.marshal, obj, ch)
    for bad_value, bad_ch in ((case.get('bad', 'text'), ch), (b'x', 65536 + ch)):
        try:          # a refused encode must not influence the next one
            frame.marshal(body.ContentBody(bad_value), bad_ch)
        except Exception:
            pass
    obj.value = case['data']
    check_encoded_body(obj, case['data'], ch)
    ph = header.ProtocolHeader(*case['v1'])
    ph.marshal()
    call('marshal', frame.marshal, ph, 0)
    ph.major_version, ph.minor_version, ph.revision = case['v2']
    want = b'AMQP\x00' + bytes(case['v2'])
    if ph.marshal() != want or frame.marshal(ph, 0) != want:
        raise Violation('reuse:protocol', 'ProtocolHeader re-assigned to %r encodes as '
                        '%r' % (tuple(case['v2']), ph.marshal()))
    n, _, out = frame.unmarshal(want)
    if (out.major_version, out.minor_version, out.revision) != tuple(case['v2']):
        raise Violation('reuse:protocol', 'decoded %r' % ((out.major_version,
                                                          out.minor_version,
                                                          out.revision),))


def check_encoded_body(obj, data, ch):
    enc = call('marshal', frame.marshal, obj, ch)
    n, rch, out = call('unmarshal', frame.unmarshal, enc)
    if n != len(data) + 8 or rch != ch or out.value != data or len(obj) != len(data):
        raise Violation('reuse:body', 'a re-assigned ContentBody of %d bytes decodes as '
                        '%d bytes (consumed %r, channel %r)' %
                        (len(data), len(out.value), n, rch))


def body_nontrivial(case):
    d = case['data']
    return len(d) > 4096 or b'\xce' in d or b'AMQP' in d or case['ch'] >= 256 \
        or d[:1] in (b'\x01', b'\x02', b'\x03', b'\x08')


def body_classes(case):
    n = len(case['data'])
    return ['len<=64' if n <= 64 else 'len<=4096' if n <= 4096 else
            'len<=65536' if n <= 65536 else 'len>65536']


def check_heartbeat(case):
    ch = case['ch']
    enc = call('marshal', frame.marshal, heartbeat.Heartbeat(), ch)
    if enc != HB:
        raise Violation('hb-bytes', 'heartbeat encoded as %r' % (enc,))
    wire = b'\x08' + ch.to_bytes(2, 'big') + b'\x00\x00\x00\x00\xce'
    n, rch, out = call('unmarshal', frame.unmarshal, wire)
    if n != 8 or rch != ch or type(out) is not heartbeat.Heartbeat:
        raise Violation('hb-decode', 'heartbeat on channel %d decoded as %r' %
                        (ch, (n, rch, type(out).__name__)))


def heartbeat_cases(tier, shard, nshards):
    for ch in range(shard, 65536, nshards):
        yield {'ch': ch}


def check_version(case):
    a, b, c = case['version']
    _version(a, b, c)


def _version(a, b, c):
    want = b'AMQP\x00' + bytes((a, b, c))
    obj = header.ProtocolHeader(a, b, c)
    if obj.marshal() != want or frame.marshal(obj, 0) != want:
        raise Violation('ph-bytes', 'ProtocolHeader%r encoded as %r' %
                        ((a, b, c), obj.marshal()))
    n, ch, out = frame.unmarshal(want)
    if n != 8 or ch != 0 or type(out) is not header.ProtocolHeader or \
            (out.major_version, out.minor_version, out.revision) != (a, b, c):
        raise Violation('ph-decode', 'protocol header %r decoded as %r' % (
            (a, b, c), (n, ch, getattr(out, 'major_version', None),
                        getattr(out, 'minor_version', None),
                        getattr(out, 'revision', None))))
    entry.frame_entries(obj, 0, want, out)


def version_bulk(tier, shard, nshards, rec):
    if tier == 'quick':
        others = (0, 9, 255)
        triples = set()
        for x in range(256):
            for p in others:
                for q in others:
                    triples.update([(x, p, q), (p, x, q), (p, q, x)])
        todo = sorted(triples)[shard::nshards]
        for t in todo:
            try:
                _version(*t)
            except Violation as v:
                rec.fail(v.bucket, {'version': t}, v.message)
            except Exception as e:
                rec.fail('ph-exception:' + type(e).__name__, {'version': t},
                         repr(e))
        rec.count(len(todo), sum(1 for t in todo if t != (0, 9, 1)))
        for t in todo[:2]:
            rec.sample({'version': t})
        return
    from pbt.runner import set_logging
    n = 0
    for a in range(shard, 256, nshards):
        set_logging(a % 2 == 0)
        for b in range(256):
            for c in range(256):
                try:
                    _version(a, b, c)
                except Violation as v:
                    rec.fail(v.bucket, {'version': (a, b, c)}, v.message)
                except Exception as e:
                    rec.fail('ph-exception:' + type(e).__name__,
                             {'version': (a, b, c)}, repr(e))
                n += 1
    rec.count(n, n - (1 if shard == 0 else 0))
    rec.sample({'version': (shard, 255, 0)})


COMPONENTS = [
    Component('bodies', check_body,
              strategy=lambda tier: st.fixed_dictionaries(
                  {'data': S.bodies(), 'ch': S.CHANNELS}),
              nontrivial=body_nontrivial, classes=body_classes,
              budget={'quick': 8000, 'thorough': 160000},
              describe='content bodies 1..131072 bytes'),
    Component('reuse', check_reuse,
              strategy=lambda tier: st.fixed_dictionaries({
                  'first': S.bodies(4200), 'data': S.bodies(4200), 'ch': S.CHANNELS,
                  'bad': st.sampled_from(['text', [1, 2], ('t',), 5, None, 1.5]),
                  'v1': st.tuples(*[st.integers(0, 255)] * 3),
                  'v2': st.tuples(*[st.integers(0, 255)] * 3)}),
              nontrivial=lambda c: c['first'] != c['data'],
              budget={'quick': 3200, 'thorough': 64000},
              describe='one body / protocol-header object encoded, re-assigned, encoded '
                       'again'),
    Component('first-use-threads', c16.check_saturation,
              cases=c16.first_use_sweep(['decode-frames', 'frames', 'headers']),
              distinct_by_construction=True,
              describe='body / method / header frames decoded and encoded as the very '
                       'first calls of a pristine process by 2-3 threads, one of them '
                       '0..59 traced lines ahead; results vs a fresh interpreter'),
    Component('heartbeats', check_heartbeat, cases=heartbeat_cases,
              nontrivial=lambda c: c['ch'] != 0, distinct_by_construction=True,
              exhaustive=True, describe='all 65536 channels'),
    Component('versions', check_version, bulk=version_bulk,
              distinct_by_construction=True, exhaustive=True,
              describe='protocol-header version triples (quick: each octet '
                       'exhaustively; thorough: all 256^3)'),
]
