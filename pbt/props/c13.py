"""C13 - argument validation accepts exactly the specified values, on send only."""
from hypothesis import strategies as st

from pbt import canon, spec_table, strategies as S, wire
from pbt.lib import commands, frame, method_class
from pbt.runner import Component, Violation

PROPERTY_ID = 'C13'
LEVEL = 'exploration'
DESIGN_REF = 'DESIGN.md section 5, C13; Appendix A (validation constraints)'
TECHNIQUE = ('exhaustive sweep of all 1,114,112 code points through every name-constrained '
             'argument + boundary lengths + all deprecated-field values, against an '
             'independent predicate written from the statement; property-based testing '
             '(Hypothesis) of random names; both construction and post-construction '
             'mutation + encode')
RULE = ('(codepoints) every Unicode code point 0..0x10FFFF (surrogates included) as a name '
        'character at the start / middle / end (quick: position rotates with the code point; '
        'thorough: all three, plus the post-construction path) of every exchange-name, '
        'queue-name and virtual-host argument of the 21 validating classes; (lengths) '
        'lengths 0,1,limit-1,limit,limit+1,2*limit of valid and invalid characters; '
        '(deprecated) ticket 0..65535 for the 12 ticket classes, both bools for insist, '
        'strings for the fixed-string fields, delivery_mode 0..255 and None, cluster_id '
        'strings, None for every name argument; (random) Hypothesis names mixing alphabet and foreign characters '
        'around the limits; each through {constructor, setattr + frame.marshal}. Oracle: '
        'ValueError raised <=> independent predicate false (len <= limit and characters '
        'within the 71-character alphabet; fixed deprecated values; delivery_mode in {1,2}); '
        'any other exception type counts as "no ValueError". (receive) wire frames carrying '
        'violating values decode without error and carry the values. Non-trivial = value at '
        'a limit, at limit+1, or a single violating / edge character; both directions '
        '(accept / reject) are counted. distinct by construction for sweeps.')
ASSUMPTIONS = [
    'limits and alphabet as written in the property: exchange name 127, queue name 256, '
    'virtual host 127 characters; letters and digits are ASCII',
    'deprecated fields are probed with values of their own type (wrong-typed values '
    'belong to C10); None ("unset") is outside the domain for the fixed deprecated '
    'fields (the statement does not say whether unset differs from the fixed value: '
    'method classes skip the check for None, Basic.Properties(cluster_id=None) raises) '
    'and inside it for names and delivery_mode, whose defaults are None',
]
LEVEL_TEXT = ('The character dimension is enumerated completely for every constrained '
              'argument (construction path in quick, both paths in thorough); lengths and '
              'deprecated values at all boundaries; random names beyond. Exploration with '
              'exhaustive sub-domains.')
LEVEL_NOTE = 'Trusted: the predicate transcribed from the statement (pbt/spec_table.py).'

ALPHA = spec_table.NAME_ALPHABET
NAME_SLOTS = [(c, s, 'name', spec_table.EXCHANGE_NAME_MAX)
              for c, s in spec_table.EXCHANGE_NAME_SLOTS] + \
             [(c, s, 'name', spec_table.QUEUE_NAME_MAX)
              for c, s in spec_table.QUEUE_NAME_SLOTS] + \
             [(c, s, 'path', spec_table.PATH_MAX) for c, s in spec_table.PATH_SLOTS]


def valid_name(s, kind, limit):
    if len(s) > limit:
        return False
    return kind == 'path' or set(s) <= ALPHA


def bit_vectors(dotted):
    """every assignment of the class's unconstrained bit arguments"""
    import itertools
    m = spec_table.BY_NAME.get(dotted)
    if m is None:
        return [{}]
    bits = [f.name for f in m.fields if f.type == 'bit' and
            (dotted, f.name) not in S._CONSTRAINED]
    return [dict(zip(bits, combo))
            for combo in itertools.product([False, True], repeat=len(bits))]


def base_args(dotted):
    m = spec_table.BY_NAME[dotted]
    args = {}
    for f in m.fields:
        c = S._CONSTRAINED.get((dotted, f.name))
        if c and c[0] == 'fixed':
            args[f.name] = c[1]
        else:
            args[f.name] = {'octet': 1, 'short': 1, 'long': 1, 'longlong': 1,
                            'bit': False, 'shortstr': 'a', 'longstr': 'b',
                            'table': {}}[f.type]
    return args


def raises_value_error(fn):
    try:
        fn()
    except UnicodeError:
        # the UTF-8 encoder refusing a lone surrogate is not argument validation (it is a
        # ValueError subclass only by Python's class hierarchy); see C10 for refusals
        return False
    except ValueError:
        return True
    except Exception:
        return False
    return False


def probe(dotted, slot, value, via):
    """did the library raise ValueError?"""
    cls = method_class(dotted) if dotted != 'Basic.Properties' else \
        commands.Basic.Properties
    if via == 'ctor':
        return raises_value_error(lambda: cls(**{slot: value}))
    verdicts = []
    for bits in bit_vectors(dotted)[1:]:
        # the same probe with every other combination of the class's flag bits
        other = cls(**dict(base_args(dotted), **bits))
        setattr(other, slot, value)
        verdicts.append(raises_value_error(lambda: frame.marshal(other, 1)))
    obj = cls(**base_args(dotted))
    setattr(obj, slot, value)
    first = raises_value_error(lambda: frame.marshal(obj, 1))
    if any(v != first for v in verdicts):
        raise Violation('flags-change-verdict:%s' % kind_of(dotted, slot),
                        '%s.%s=%s: ValueError raised = %r with all flag bits False, '
                        'but %r with the other flag combinations' %
                        (dotted, slot, canon.short(value, 80), first, verdicts))
    # the verdict must not change when the same object is encoded again (a failed
    # attempt must not leave the object 'approved'), nor between the entry points
    verdicts = [raises_value_error(lambda: frame.marshal(obj, 1)),
                raises_value_error(lambda: frame.marshal(obj, 1)),
                raises_value_error(obj.marshal),
                raises_value_error(lambda: frame.marshal(obj, 2))]
    if len(set(verdicts)) != 1:
        raise Violation('retry-differs:%s' % kind_of(dotted, slot),
                        '%s.%s=%s: ValueError raised per encode attempt = %r' %
                        (dotted, slot, canon.short(value, 80), verdicts))
    return verdicts[0]


def judge(dotted, slot, value, via, ok, what):
    got = probe(dotted, slot, value, via)
    if got != (not ok):
        direction = 'accepts-invalid' if ok is False else 'rejects-valid'
        raise Violation('%s:%s:%s' % (direction, what, via),
                        '%s(%s=%s) via %s: ValueError %s, but the value is %s' %
                        (dotted, slot, canon.short(value, 80), via,
                         'raised' if got else 'not raised',
                         'valid' if ok else 'invalid'))


def check(case):
    dotted, slot, v, via = case['cls'], case['slot'], case['v'], case['via']
    ok = expected_ok(dotted, slot, v)
    judge(dotted, slot, v, via, ok, kind_of(dotted, slot))
    return ['accept' if ok else 'reject', 'via=' + via]


def kind_of(dotted, slot):
    for c, s, kind, limit in NAME_SLOTS:
        if (c, s) == (dotted, slot):
            return '%s%d' % (kind, limit)
    return 'fixed'


def expected_ok(dotted, slot, v):
    if v is None:
        return True
    for c, s, kind, limit in NAME_SLOTS:
        if (c, s) == (dotted, slot):
            return valid_name(v, kind, limit)
    if dotted == 'Basic.Properties':
        if slot == 'delivery_mode':
            return v in (1, 2)
        if slot == 'cluster_id':
            return v == ''
    if slot == 'ticket':
        return v == 0
    for c, s, fixed in spec_table.FIXED_SLOTS:
        if (c, s) == (dotted, slot):
            return v is fixed if isinstance(fixed, bool) else v == fixed
    raise AssertionError((dotted, slot))


# ---------------------------------------------------------------- code-point sweep

def codepoint_bulk(tier, shard, nshards, rec):
    total = 0x110000
    lo = total * shard // nshards
    hi = total * (shard + 1) // nshards
    n = rejects = 0
    ctors = []
    for dotted, slot, kind, limit in NAME_SLOTS:
        cls = method_class(dotted)
        ctors.append((dotted, slot, kind, limit, cls))
    posts = []
    if tier == 'thorough':
        for dotted, slot, kind, limit, cls in ctors:
            posts.append((dotted, slot, kind, cls(**base_args(dotted))))
    from pbt.runner import set_logging
    for cp in range(lo, hi):
        if cp % 4096 == 0:
            set_logging(cp % 8192 == 0)
        ch = chr(cp)
        in_alpha = ch in ALPHA
        variants = (ch + 'ab', 'a' + ch + 'b', 'ab' + ch)
        strings = variants if tier == 'thorough' else (variants[cp % 3],)
        for dotted, slot, kind, limit, cls in ctors:
            ok = in_alpha or kind == 'path'
            for s in strings:
                n += 1
                try:
                    cls(**{slot: s})
                    got = False
                except ValueError:
                    got = True
                except Exception:
                    got = False
                if got == ok:
                    rec.fail('%s:%s%d:ctor' % ('rejects-valid' if ok else
                                               'accepts-invalid', kind, limit),
                             {'cls': dotted, 'slot': slot, 'v': s, 'via': 'ctor'},
                             '%s(%s=%r): ValueError %s for code point U+%04X' %
                             (dotted, slot, s, 'raised' if got else 'not raised', cp))
                if not ok:
                    rejects += 1
        for dotted, slot, kind, obj in posts:
            ok = in_alpha or kind == 'path'
            s = variants[cp % 3]
            setattr(obj, slot, s)
            n += 1
            try:
                frame.marshal(obj, 1)
                got = False
            except ValueError as e:
                got = not isinstance(e, UnicodeError)
            except Exception:
                got = False
            if got == ok:
                rec.fail('%s:%s:marshal' % ('rejects-valid' if ok else
                                            'accepts-invalid', kind),
                         {'cls': dotted, 'slot': slot, 'v': s, 'via': 'marshal'},
                         '%s.%s=%r then marshal: ValueError %s' %
                         (dotted, slot, s, 'raised' if got else 'not raised'))
            if not ok:
                rejects += 1
    rec.count(n, n, 'codepoint-probes')
    rec.classes['reject-direction'] += rejects
    rec.classes['accept-direction'] += n - rejects
    rec.sample({'cls': NAME_SLOTS[0][0], 'slot': NAME_SLOTS[0][1],
                'v': 'a' + chr(lo) + 'b', 'via': 'ctor'})


# ---------------------------------------------------------------- lengths / deprecated

def boundary_cases(tier, shard, nshards):
    out = []
    for dotted, slot, kind, limit in NAME_SLOTS:
        for n in (0, 1, limit - 1, limit, limit + 1, 2 * limit):
            for fill in ('a', '/', ' ', '\xe9', '*'):
                for via in ('ctor', 'marshal'):
                    out.append({'cls': dotted, 'slot': slot, 'v': fill * n,
                                'via': via})
        for v in ('az09AZ', '-_.:@#,/ ', 'a\nb', 'a\n', '\na', 'a\x00', 'a[b', 'a`b',
                  'a{b', 'a^b', 'a\\b', 'a+b', 'a;b', 'a?b', 'a!b', 'a"b', "a'b",
                  'a(b', 'a)b', 'a*b', 'a$b', 'a%b', 'a&b', 'a<b', 'a=b', 'a>b',
                  'a|b', 'a~b', 'ａ', '１', 'K', 'ı', None):
            for via in ('ctor', 'marshal'):
                out.append({'cls': dotted, 'slot': slot, 'v': v, 'via': via})
    # None is outside the domain for fixed deprecated fields: the statement fixes their
    # value, and whether "unset" counts as differing is not specified (method classes
    # skip the check for None, Basic.Properties does not)
    if tier == 'thorough':
        # two-character combinations around the edges of the alphabet's ranges
        edges = '/0-.,9:;@AZ[_`az{ #"$\\'
        for dotted, slot, kind, limit in NAME_SLOTS:
            for a in edges:
                for b in edges:
                    out.append({'cls': dotted, 'slot': slot, 'v': 'x' + a + b,
                                'via': 'ctor'})
    strings = ['', '0', '1', 'x', ' ', '00', '\x00', 'None']
    for c, s, fixed in spec_table.FIXED_SLOTS:
        vals = [True, False] if isinstance(fixed, bool) else strings
        for v in vals:
            for via in ('ctor', 'marshal'):
                out.append({'cls': c, 'slot': s, 'v': v, 'via': via})
    for v in strings:
        out.append({'cls': 'Basic.Properties', 'slot': 'cluster_id', 'v': v,
                    'via': 'ctor'})
    for v in list(range(256)) + [None]:
        out.append({'cls': 'Basic.Properties', 'slot': 'delivery_mode', 'v': v,
                    'via': 'ctor'})
    out = [c for c in out if not (c['via'] == 'marshal' and c['v'] is None and False)]
    return out[shard::nshards]


def check_pair(case):
    """two constrained arguments of one class set together (also to the same string)"""
    dotted = case['cls']
    cls = method_class(dotted)
    ok = all(expected_ok(dotted, s, v) for s, v in case['values'].items())
    for via in ('ctor', 'marshal'):
        if via == 'ctor':
            got = raises_value_error(lambda: cls(**case['values']))
        else:
            obj = cls(**base_args(dotted))
            for s, v in case['values'].items():
                setattr(obj, s, v)
            got = raises_value_error(lambda: frame.marshal(obj, 1))
        if got != (not ok):
            raise Violation('%s:pair:%s' % ('accepts-invalid' if not ok else
                                            'rejects-valid', via),
                            '%s(%s) via %s: ValueError %s, but the values are %s' %
                            (dotted, canon.short(case['values'], 120), via,
                             'raised' if got else 'not raised',
                             'valid' if ok else 'invalid'))
    return ['accept' if ok else 'reject']


def pair_cases(tier, shard, nshards):
    by_class = {}
    for c, s, kind, limit in NAME_SLOTS:
        by_class.setdefault(c, []).append((s, kind, limit))
    lengths = (0, 1, 126, 127, 128, 129, 200, 255, 256, 257)
    out = []
    for c, slots in by_class.items():
        for i in range(len(slots)):
            for j in range(i + 1, len(slots)):
                for la in lengths:
                    for lb in lengths:
                        for fa, fb in (('a', 'a'), ('a', 'b'), ('a', '*')):
                            out.append({'cls': c, 'values': {slots[i][0]: fa * la,
                                                             slots[j][0]: fb * lb}})
    return out[shard::nshards]


def check_cross_class(case):
    """one value validated by every name-constrained argument of every class in turn, in one
    process: a verdict reached for a name under one limit (queue, 256) must not be reused
    under another (exchange / virtual host, 127), whichever class sees the value first"""
    v = case['v']
    slots = NAME_SLOTS if case['order'] == 'forward' else NAME_SLOTS[::-1]
    if case['order'] == 'queues-first':
        slots = sorted(NAME_SLOTS, key=lambda t: -t[3])
    n = 0
    for via in case['vias']:
        for dotted, slot, kind, limit in slots:
            judge(dotted, slot, v, via, valid_name(v, kind, limit),
                  'cross-class:' + kind_of(dotted, slot))
            n += 1
    return {'labels': ['order=' + case['order']], 'sub_evaluations': n}


def cross_class_cases(tier, shard, nshards):
    out = []
    values = [fill * n for n in (1, 126, 127, 128, 129, 200, 254, 255, 256, 257)
              for fill in ('a', 'Q', '.')]
    values += ['a' * 127 + '*', 'a*b', '\xe9' * 128, 'a' * 255 + '\n', 'K' * 200]
    for v in values:
        for order in ('forward', 'reverse', 'queues-first'):
            for vias in (('ctor',), ('marshal',), ('ctor', 'marshal'),
                         ('marshal', 'ctor')):
                out.append({'v': v, 'order': order, 'vias': list(vias)})
    return out[shard::nshards]


def check_twins(case):
    """two names that are 'equal' for a user-defined str subclass (case-insensitive,
    whitespace-insensitive) but consist of different characters, validated one after the
    other: each verdict must follow from its own characters"""
    dotted, slot = case['cls'], case['slot']
    for v in case['names']:
        name = canon.CIStr(v) if case['wrap'] else v
        ok = expected_ok(dotted, slot, v)
        for via in ('ctor', 'marshal'):
            got = probe(dotted, slot, name, via)
            if got != (not ok):
                raise Violation('%s:twin:%s' % ('accepts-invalid' if not ok else
                                                'rejects-valid', via),
                                '%s(%s=%r) via %s after an equal-comparing twin: '
                                'ValueError %s, but the value is %s' %
                                (dotted, slot, name, via,
                                 'raised' if got else 'not raised',
                                 'valid' if ok else 'invalid'))
    return ['wrapped' if case['wrap'] else 'plain']


def twin_cases(tier, shard, nshards):
    pairs = [['stream', '\u017ftream'], ['\u017ftream', 'stream'], ['kelvin', '\u212aelvin'],
             ['events', 'events\t\n'], ['events\t\n', 'events'], ['Queue', 'queue'],
             ['queue', 'QUEUE', 'que\u00fce'], ['a b', ' a b '], ['stra\u00dfe', 'strasse'],
             ['strasse', 'STRASSE', 'stra\u00dfe'], ['i', '\u0130', 'I'], ['x' * 127,
                                                                           'X' * 128]]
    out = []
    for c, s, kind, limit in NAME_SLOTS:
        if kind != 'name':
            continue
        for names in pairs:
            for wrap in (True, False):
                out.append({'cls': c, 'slot': s, 'names': names, 'wrap': wrap})
    return out[shard::nshards]


def ticket_bulk(tier, shard, nshards, rec):
    n = 0
    for dotted in spec_table.TICKET_CLASSES:
        cls = method_class(dotted)
        obj = cls(**base_args(dotted))
        for t in range(shard, 65536, nshards):
            n += 2
            try:
                cls(ticket=t)
                got = False
            except ValueError:
                got = True
            if got != (t != 0):
                rec.fail('ticket:ctor', {'cls': dotted, 'slot': 'ticket', 'v': t,
                                         'via': 'ctor'},
                         '%s(ticket=%d): ValueError %s' %
                         (dotted, t, 'raised' if got else 'not raised'))
            obj.ticket = t
            try:
                frame.marshal(obj, 1)
                got = False
            except ValueError:
                got = True
            if got != (t != 0):
                rec.fail('ticket:marshal', {'cls': dotted, 'slot': 'ticket', 'v': t,
                                            'via': 'marshal'},
                         '%s.ticket=%d then marshal: ValueError %s' %
                         (dotted, t, 'raised' if got else 'not raised'))
    rec.count(n, n, 'ticket-probes')
    rec.sample({'cls': 'Basic.Get', 'slot': 'ticket', 'v': 1, 'via': 'marshal'})


def boundary_nontrivial(case):
    return True


def random_cases(tier):
    foreign = st.characters(exclude_characters=''.join(ALPHA))

    def for_slot(t):
        dotted, slot, kind, limit = t
        good = st.text(st.sampled_from(S.NAME_CHARS), max_size=limit + 3)
        mixed = st.builds(lambda g, f, i: g[:i % (len(g) + 1)] + f +
                          g[i % (len(g) + 1):], good, foreign, st.integers(0, 400))
        edge = st.builds(lambda n, c: c * n,
                         st.sampled_from([limit - 1, limit, limit + 1]),
                         st.sampled_from(S.NAME_CHARS))
        return st.fixed_dictionaries({
            'cls': st.just(dotted), 'slot': st.just(slot),
            'v': st.one_of(good, mixed, edge, st.text(max_size=6)),
            'via': st.sampled_from(['ctor', 'marshal'])})
    return st.sampled_from(NAME_SLOTS).flatmap(for_slot)


def random_nontrivial(case):
    v = case['v']
    lim = [l for c, s, k, l in NAME_SLOTS if (c, s) == (case['cls'], case['slot'])][0]
    return abs(len(v) - lim) <= 1 or sum(1 for ch in v if ch not in ALPHA) == 1


# ---------------------------------------------------------------- receive side

def check_receive(case):
    data, marks, expected = wire.render_frame(case)
    try:
        n, ch, obj = frame.unmarshal(data)
    except Exception as e:
        raise Violation('receive-validates:%s' % type(e).__name__,
                        'received %s with violating values was refused: %s' %
                        (case.get('cls', 'header'), e))
    if case['kind'] == 'method':
        for k, v in expected[2][1].items():
            if getattr(obj, k) != v:
                raise Violation('receive-value', '%s.%s decoded as %r' %
                                (case['cls'], k, getattr(obj, k)))
    else:
        for k, v in expected[2][2].items():
            if getattr(obj.properties, k) != v:
                raise Violation('receive-value', 'property %s decoded as %r' %
                                (k, getattr(obj.properties, k)))
    return ['received']


def receive_cases(tier, shard, nshards):
    out = []
    bad_names = ['bad*name', '\xe9', 'q' * 255, 'a\nb']
    for dotted, slot, kind, limit in NAME_SLOTS:
        m = spec_table.BY_NAME[dotted]
        for bad in bad_names:
            args = {}
            for f in m.fields:
                args[f.name] = {'octet': 1, 'short': 7, 'long': 1, 'longlong': 1,
                                'bit': True, 'shortstr': 'a', 'longstr': b'b',
                                'table': []}[f.type]
            args[slot] = bad if kind == 'name' else 'v' * 200
            out.append({'kind': 'method', 'cls': dotted, 'ch': 1, 'args': args})
    for c, s, fixed in spec_table.FIXED_SLOTS:
        m = spec_table.BY_NAME[c]
        args = {}
        for f in m.fields:
            args[f.name] = {'octet': 1, 'short': 7, 'long': 1, 'longlong': 1,
                            'bit': True, 'shortstr': 'zz', 'longstr': b'zz',
                            'table': []}[f.type]
        out.append({'kind': 'method', 'cls': c, 'ch': 1, 'args': args})
    for dm in (0, 3, 255):
        out.append({'kind': 'header', 'ch': 1, 'body_size': 1, 'weight': 0,
                    'unused_bit': False, 'extra_words': [],
                    'props': {'delivery_mode': dm, 'cluster_id': 'not-empty'}})
    return out[shard::nshards]


COMPONENTS = [
    Component('codepoints', check, bulk=codepoint_bulk,
              distinct_by_construction=True, exhaustive=True,
              describe='every code point x every name-constrained argument'),
    Component('boundaries', check, cases=boundary_cases,
              nontrivial=boundary_nontrivial, distinct_by_construction=True,
              exhaustive=True, shards={'quick': 8, 'thorough': 8},
              describe='length limits, edge characters, fixed deprecated values, '
                       'delivery modes, None; both paths'),
    Component('pairs', check_pair, cases=pair_cases, distinct_by_construction=True,
              exhaustive=True, shards={'quick': 8, 'thorough': 8},
              describe='classes with two name-constrained arguments: both set together, '
                       '10 x 10 boundary lengths, equal and different strings'),
    Component('cross-class', check_cross_class, cases=cross_class_cases,
              distinct_by_construction=True, shards={'quick': 8, 'thorough': 8},
              describe='one value (boundary lengths 126..257, invalid characters) validated '
                       'by every name-constrained argument of every class in turn, three '
                       'orders, both paths'),
    Component('twins', check_twins, cases=twin_cases, distinct_by_construction=True,
              shards={'quick': 8, 'thorough': 8},
              describe='names of a str subclass with user-defined (case / whitespace '
                       'insensitive) equality: equal-comparing twins with different '
                       'characters validated one after the other'),
    Component('tickets', check, bulk=ticket_bulk, distinct_by_construction=True,
              exhaustive=True,
              describe='ticket 0..65535 x 12 classes x both paths'),
    Component('random', check, strategy=random_cases, nontrivial=random_nontrivial,
              budget={'quick': 12000, 'thorough': 320000},
              describe='random names mixing alphabet and foreign characters'),
    Component('receive', check_receive, cases=receive_cases,
              distinct_by_construction=True, shards={'quick': 4, 'thorough': 4},
              describe='wire frames with violating values must decode'),
]
