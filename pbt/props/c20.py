"""C20 - header peek reports the type, channel and size the decoder will use."""
from hypothesis import strategies as st

from pbt import strategies as S
from pbt.lib import call, frame, frame_kind, make_frame
from pbt.runner import Component, Violation

PROPERTY_ID = 'C20'
LEVEL = 'exploration'
DESIGN_REF = 'DESIGN.md section 5, C20'
TECHNIQUE = ('exhaustive per-byte sweep of the 7-byte header + property-based testing '
             '(Hypothesis) of the peek/read/decode client loop against the encoder')
RULE = ('peek: byte strings of length 0..64. Sweep: each of the first 7 bytes through all '
        '256 values with the other six at every combination drawn from {00,7F,80,FF} '
        'rotated, with 0/1/9 trailing bytes; every length 0..6 with 4 content classes. '
        'Hypothesis: uniform random buffers. Oracle: len >= 7 => frame_parts(b) == (b[0], '
        'int.from_bytes(b[1:3]), int.from_bytes(b[3:7])) as exact ints, independent of '
        'b[7:]; len < 7 => exactly (0, 0, None), no exception. reader: every generated '
        'frame of the four non-protocol kinds on its channel: peek(f[:7]) == (type, ch, '
        'len(f)-8), and the buffer "7 bytes + size+1 more" is accepted by unmarshal with '
        'consumed == len(buffer) on the peeked channel and the kind matching the type '
        'octet; heartbeats are requested on arbitrary channel arguments. Non-trivial = type octet >= 128, channel >= 32768, size >= 2^31, or '
        'length < 7 (peek); a frame with payload (reader).')
ASSUMPTIONS = ['for heartbeats the channel expected from the peek is the one in the encoded '
               'bytes (the encoder ignores its channel argument for them; C18 checks that)']
LEVEL_TEXT = ('Each header byte is enumerated exhaustively against an int.from_bytes oracle; '
              'the reader-loop clause is explored over generated frames of all kinds.')
LEVEL_NOTE = 'Trusted: int.from_bytes big-endian arithmetic; Hypothesis.'

TYPE_OF = {'method': 1, 'header': 2, 'body': 3, 'heartbeat': 8}


def check_peek(case):
    b = case['data']
    try:
        res = frame.frame_parts(b)
    except Exception as e:
        raise Violation('peek-raises:' + type(e).__name__,
                        'frame_parts(%d bytes) raised %r' % (len(b), e))
    if len(b) < 7:
        if not (isinstance(res, tuple) and len(res) == 3 and
                res[0] == 0 and res[1] == 0 and res[2] is None and
                type(res[0]) is int and type(res[1]) is int):
            raise Violation('short', 'frame_parts(%r) == %r, expected (0, 0, None)'
                            % (b, res))
        return
    want = (b[0], int.from_bytes(b[1:3], 'big'), int.from_bytes(b[3:7], 'big'))
    if not (isinstance(res, tuple) and tuple(res) == want and
            all(type(x) is int for x in res)):
        raise Violation('parts', 'frame_parts(%s...) == %r, expected %r' %
                        (b[:7].hex(), res, want))
    if len(b) > 7:
        res2 = frame.frame_parts(b[:7])
        if tuple(res2) != want:
            raise Violation('tail-dependence', 'result depends on bytes after the '
                            'header: %r vs %r' % (res, res2))


def peek_nontrivial(case):
    b = case['data']
    if len(b) < 7:
        return True
    return b[0] >= 128 or b[1] >= 128 or b[3] >= 128


def peek_classes(case):
    b = case['data']
    if len(b) < 7:
        return ['len<7']
    out = ['len=7' if len(b) == 7 else 'len>7']
    if b[0] >= 128:
        out.append('type>=128')
    if b[1] >= 128:
        out.append('channel>=32768')
    if b[3] >= 128:
        out.append('size>=2^31')
    return out


def peek_sweep(tier, shard, nshards):
    fill = (0x00, 0x7f, 0x80, 0xff)
    tails = (b'', b'\xce', b'\x00AMQP\x00\x00\t\x01')
    i = 0
    for pos in range(7):
        for v in range(256):
            for k in range(64 if tier == 'quick' else 256):
                if i % nshards == shard:
                    hdr = bytearray(fill[(k + j * (1 + k // 4)) % 4]
                                    for j in range(7))
                    hdr[pos] = v
                    yield {'data': bytes(hdr) + tails[i % 3]}
                i += 1
    for n in range(7):
        for c in (0x00, 0x08, 0x41, 0xff):
            if i % nshards == shard:
                yield {'data': bytes([c]) * n}
            i += 1
    if shard == 0:
        yield {'data': b'AMQP\x00\x00'}
        yield {'data': b'AMQP\x00\x00\t\x01'}


def check_reader(case):
    f = call('construct', make_frame, case)
    ch = case['ch']
    data = call('marshal', frame.marshal, f, ch)
    t, pch, size = call('peek', frame.frame_parts, data[:7])
    want = (TYPE_OF[case['kind']], ch, len(data) - 8)
    if case['kind'] == 'heartbeat':
        # which channel a heartbeat is emitted on is C18's business (the fixed frame); here
        # only: whatever the encoder wrote is what the peek reports and the decoder accepts
        want = (8, int.from_bytes(data[1:3], 'big'), len(data) - 8)
    if (t, pch, size) != want:
        raise Violation('peek-vs-encoder', 'peek %r, expected %r' %
                        ((t, pch, size), want))
    # reader model over a longer stream: read 7, peek, read size + 1 more
    stream = data + b'\x01\x00\x07\x00\x00\x00\x04tail'
    buf = stream[:7] + stream[7:7 + size + 1]
    n, rch, out = call('unmarshal', frame.unmarshal, buf)
    if n != len(buf) or n != len(data):
        raise Violation('reader-consumed', 'consumed %r of a %d-byte buffer' %
                        (n, len(buf)))
    if rch != pch:
        raise Violation('reader-channel', 'decoded channel %r, peeked %r' %
                        (rch, pch))
    if frame_kind(out) != case['kind']:
        raise Violation('reader-kind', 'decoded %s for type octet %d' %
                        (frame_kind(out), t))


def reader_cases(tier):
    small = S.any_frame_cases(big_bodies=True).filter(
        lambda c: c['kind'] != 'protocol')
    # every kind must also be read back when its payload is larger than 64 KiB / 128 KiB
    big_methods = S.method_cases(6, True).map(lambda c: dict(c, kind='method'))
    big_headers = S.big_header_cases().map(lambda c: dict(c, kind='header'))
    beats = st.fixed_dictionaries({'kind': st.just('heartbeat'), 'ch': S.CHANNELS})
    return st.one_of(small, small, small, big_methods, big_headers, beats)


def big_sweep(tier, shard, nshards):
    out = []
    for n in (65535, 65536, 131056, 131057, 131072, 131073, 200000):
        out.append({'kind': 'method', 'cls': 'Connection.Secure', 'ch': 1,
                    'args': {'challenge': 'c' * n}})
        out.append({'kind': 'method', 'cls': 'Queue.Declare', 'ch': 2,
                    'args': {'ticket': 0, 'queue': 'q', 'passive': False,
                             'durable': False, 'exclusive': False,
                             'auto_delete': False, 'nowait': False,
                             'arguments': {'big': 'a' * n}}})
        out.append({'kind': 'header', 'ch': 3, 'body_size': n,
                    'props': {'headers': {'big': 'h' * n}}})
        out.append({'kind': 'body', 'ch': 4, 'data': b'\xce' * min(n, 131072)})
    # tables whose over-long keys collide after the documented 128-character truncation:
    # whatever the encoder emits for them, the reader loop must accept it
    long_a, long_b, exact = 'L' * 129, 'L' * 128 + 'b', 'L' * 128
    for keys in ([long_a, long_b], [exact, long_a], [long_a, long_b, 'z']):
        t = {k: i for i, k in enumerate(keys)}
        out.append({'kind': 'method', 'cls': 'Connection.StartOk', 'ch': 0,
                    'args': {'client_properties': t, 'mechanism': 'PLAIN',
                             'response': 'r', 'locale': 'en_US'}})
        out.append({'kind': 'method', 'cls': 'Queue.Declare', 'ch': 2,
                    'args': {'ticket': 0, 'queue': 'q', 'passive': False,
                             'durable': False, 'exclusive': False,
                             'auto_delete': False, 'nowait': False,
                             'arguments': {'n': dict(t), 'after': 1}}})
        out.append({'kind': 'header', 'ch': 3, 'body_size': 1,
                    'props': {'headers': dict(t), 'delivery_mode': 2,
                              'app_id': 'after'}})
    # a heartbeat requested on every kind of channel argument
    for ch in (0, 1, 5, 255, 256, 32767, 32768, 65535):
        out.append({'kind': 'heartbeat', 'ch': ch})
    return out[shard::nshards]


COMPONENTS = [
    Component('header-bytes', check_peek, cases=peek_sweep,
              nontrivial=peek_nontrivial, classes=peek_classes,
              describe='each header byte through all 256 values x filler '
                       'combinations; all short lengths'),
    Component('random', check_peek,
              strategy=lambda tier: st.fixed_dictionaries(
                  {'data': st.one_of(st.binary(max_size=16),
                                     st.binary(max_size=64))}),
              nontrivial=peek_nontrivial, classes=peek_classes,
              budget={'quick': 32000, 'thorough': 640000},
              describe='uniform random buffers of length 0..64'),
    Component('reader-big', check_reader, cases=big_sweep,
              nontrivial=lambda c: True, classes=lambda c: ['kind=' + c['kind']],
              shards={'quick': 4, 'thorough': 4},
              describe='method, header and body frames with payloads around 64 KiB, '
                       '128 KiB and beyond'),
    Component('reader', check_reader, strategy=reader_cases,
              nontrivial=lambda c: c['kind'] != 'heartbeat',
              classes=lambda c: ['kind=' + c['kind']],
              budget={'quick': 8000, 'thorough': 160000},
              describe='peek/read/decode loop over encoder output, all kinds'),
]
