"""Adapter between generated cases and the library under test (imports pamqp)."""
import functools

from pamqp import (body, commands, decode, encode, exceptions, frame, header,
                   heartbeat)

from pbt import canon, refcodec, spec_table
from pbt.runner import Violation, lib_site

UnmarshalingException = exceptions.UnmarshalingException


@functools.lru_cache(maxsize=None)
def method_class(dotted):
    cname, mname = dotted.split('.')
    return getattr(getattr(commands, cname), mname)


def make_method(dotted, args):
    return method_class(dotted)(**args)


def make_properties(props):
    return commands.Basic.Properties(**props)


def make_header(props, body_size):
    return header.ContentHeader(0, body_size, make_properties(props))


def make_frame(case):
    """frame object for an any_frame case"""
    k = case['kind']
    if k == 'method':
        return make_method(case['cls'], case['args'])
    if k == 'header':
        return make_header(case['props'], case['body_size'])
    if k == 'body':
        return body.ContentBody(case['data'])
    if k == 'heartbeat':
        return heartbeat.Heartbeat()
    if k == 'protocol':
        return header.ProtocolHeader(*case['version'])
    raise AssertionError(k)


def ref_encode(case):
    """reference bytes for an any_frame case"""
    k = case['kind']
    if k == 'method':
        return refcodec.enc_method_frame(case['cls'], case['args'], case['ch'])
    if k == 'header':
        return refcodec.enc_header_frame(case['props'], case['body_size'],
                                         case['ch'])
    if k == 'body':
        return refcodec.enc_body_frame(case['data'], case['ch'])
    if k == 'heartbeat':
        return refcodec.enc_heartbeat()
    if k == 'protocol':
        return refcodec.enc_protocol_header(*case['version'])
    raise AssertionError(k)


def call(bucket_prefix, fn, *args):
    """Call library code; any exception becomes a Violation bucketed by type and
    innermost pamqp frame."""
    try:
        return fn(*args)
    except Exception as e:
        raise Violation('%s:%s@%s' % (bucket_prefix, type(e).__name__,
                                      lib_site(e)),
                        '%s raised %s: %s' % (getattr(fn, '__name__', fn),
                                              type(e).__name__,
                                              canon.short(str(e), 300)))


def frame_kind(obj):
    if isinstance(obj, header.ProtocolHeader):
        return 'protocol'
    if isinstance(obj, heartbeat.Heartbeat):
        return 'heartbeat'
    if isinstance(obj, body.ContentBody):
        return 'body'
    if isinstance(obj, header.ContentHeader):
        return 'header'
    from pamqp import base
    if isinstance(obj, base.Frame):
        return 'method'
    return 'other:' + type(obj).__name__


def dump_frame(obj):
    """canonical, type-aware dump of a decoded frame object"""
    k = frame_kind(obj)
    if k == 'method':
        return ('method', type(obj).__module__, type(obj).__qualname__,
                tuple((n, canon.canon(getattr(obj, n, '<missing>')))
                      for n in spec_names(obj)))
    if k == 'header':
        p = obj.properties
        return ('header', getattr(obj, 'class_id', '<missing>'),
                getattr(obj, 'weight', '<missing>'),
                getattr(obj, 'body_size', '<missing>'),
                tuple((n, canon.canon(getattr(p, n, '<missing>')))
                      for n, _, _, _ in spec_table.PROPERTIES))
    if k == 'body':
        return ('body', canon.canon(obj.value))
    if k == 'heartbeat':
        return ('heartbeat',)
    if k == 'protocol':
        return ('protocol', obj.major_version, obj.minor_version, obj.revision)
    return (k,)


def spec_names(obj):
    dotted = type(obj).__qualname__
    m = spec_table.BY_NAME.get(dotted)
    if m is None:
        return list(type(obj).__slots__)
    return [f.name for f in m.fields]


__all__ = ['body', 'commands', 'decode', 'encode', 'exceptions', 'frame',
           'header', 'heartbeat']
