"""Deterministic cooperative thread scheduler for C16.

N real threads, exactly one runnable at any time.  Control is handed over through
semaphores at every `line` event (or every opcode when opcode=True) executed inside the
pamqp package; the sequence of thread choices is a list drawn by Hypothesis, so
interleavings are generated, replayable and shrinkable.
"""
import os
import sys
import threading

from pbt.runner import REPO

ROOT = os.path.realpath(os.path.join(REPO, 'pamqp')) + os.sep
_INSIDE = {}


def _inside(code):
    r = _INSIDE.get(code)
    if r is None:
        r = os.path.realpath(code.co_filename).startswith(ROOT)
        _INSIDE[code] = r
    return r


class Deadlock(Exception):
    pass


class Scheduler:
    def __init__(self, bodies, schedule, opcode=False, timeout=60):
        self.bodies = bodies
        self.schedule = list(schedule)
        self.pos = 0
        self.opcode = opcode
        self.timeout = timeout
        self.n = len(bodies)
        self.sems = [threading.Semaphore(0) for _ in bodies]
        self.done = [False] * self.n
        self.results = [None] * self.n
        self.errors = [None] * self.n
        self.switches = 0
        self.yield_points = 0
        self.failed = None

    # -- called from worker threads ---------------------------------------------------
    def _next_choice(self, me):
        alive = [i for i in range(self.n) if not self.done[i]]
        if self.schedule:                 # the drawn schedule is used cyclically
            c = self.schedule[self.pos % len(self.schedule)]
            self.pos += 1
            return alive[c % len(alive)]
        return me if not self.done[me] else alive[0]

    def _yield(self, me):
        self.yield_points += 1
        nxt = self._next_choice(me)
        if nxt != me:
            self.switches += 1
            self.sems[nxt].release()
            if not self.sems[me].acquire(timeout=self.timeout):
                self.failed = 'thread %d starved' % me
                raise Deadlock(self.failed)

    def _tracer(self, me):
        opcode = self.opcode

        def local(frame, event, arg):
            if event == 'line' and not opcode:
                self._yield(me)
            elif event == 'opcode':
                self._yield(me)
            return local

        def glob(frame, event, arg):
            if _inside(frame.f_code):
                if opcode:
                    frame.f_trace_opcodes = True
                return local
            return None
        return glob

    def _run(self, me):
        if not self.sems[me].acquire(timeout=self.timeout):
            self.failed = 'thread %d never started' % me
            return
        sys.settrace(self._tracer(me))
        try:
            self.results[me] = self.bodies[me]()
        except Deadlock:
            pass
        except BaseException as e:     # the body reports library exceptions itself
            self.errors[me] = e
        finally:
            sys.settrace(None)
            self.done[me] = True
            alive = [i for i in range(self.n) if not self.done[i]]
            if alive:
                nxt = self._next_choice(me)
                if self.done[nxt]:
                    nxt = alive[0]
                self.sems[nxt].release()

    def run(self):
        threads = [threading.Thread(target=self._run, args=(i,), daemon=True)
                   for i in range(self.n)]
        for t in threads:
            t.start()
        first = self.schedule[0] % self.n if self.schedule else 0
        self.pos = min(1, len(self.schedule))
        self.sems[first].release()
        for t in threads:
            t.join(self.timeout)
            if t.is_alive():
                self.failed = self.failed or 'thread did not finish'
        if self.failed:
            raise Deadlock(self.failed)
        return self.results


class ThreadPoolSeq:
    """Long-lived worker threads that execute callables strictly one at a time, each on the
    thread named by the step: a *cross-thread history* (no concurrency, but thread-local or
    thread-affine state shows up)."""

    def __init__(self, n):
        import queue
        self.inq = [queue.Queue() for _ in range(n)]
        self.outq = queue.Queue()
        self.threads = [threading.Thread(target=self._loop, args=(i,), daemon=True)
                        for i in range(n)]
        for t in self.threads:
            t.start()

    def _loop(self, i):
        while True:
            fn = self.inq[i].get()
            if fn is None:
                return
            try:
                self.outq.put(('ok', fn()))
            except BaseException as e:
                self.outq.put(('exc', e))

    def call(self, tid, fn, timeout=120):
        self.inq[tid % len(self.inq)].put(fn)
        kind, val = self.outq.get(timeout=timeout)
        if kind == 'exc':
            raise val
        return val

    def close(self):
        for q in self.inq:
            q.put(None)
