"""Deterministic step budget: count `line` events executed inside the pamqp package.

``run(fn, data, limit)`` executes ``fn(data)`` under ``sys.settrace`` with a local trace
function installed only for frames whose code lives in the pamqp package.  When the
number of line events exceeds ``limit`` a private BaseException aborts the call.  The
count is a pure function of the code and the input (no wall clock), hence a legitimate
oracle for "work proportional to the input length".
"""
import os
import sys

from pbt.runner import REPO

ROOT = os.path.realpath(os.path.join(REPO, 'pamqp')) + os.sep


class BudgetExceeded(BaseException):
    pass


def limit_for(n):
    return 400 + 40 * n


class Result:
    __slots__ = ('value', 'exc', 'lines', 'funcs', 'exceeded')


_CACHE = {}


def _inside(code):
    r = _CACHE.get(code)
    if r is None:
        r = os.path.realpath(code.co_filename).startswith(ROOT)
        _CACHE[code] = r
    return r


def run(fn, data, limit=None):
    limit = limit_for(len(data)) if limit is None else limit
    res = Result()
    res.value = res.exc = None
    res.exceeded = False
    funcs = set()
    count = [0]

    def local(frame, event, arg):
        if event == 'line':
            count[0] += 1
            if count[0] > limit:
                raise BudgetExceeded()
        return local

    def tracer(frame, event, arg):
        code = frame.f_code
        if _inside(code):
            funcs.add(code.co_name)
            count[0] += 1
            if count[0] > limit:
                raise BudgetExceeded()
            return local
        return None

    old = sys.gettrace()
    sys.settrace(tracer)
    try:
        res.value = fn(data)
    except BudgetExceeded:
        res.exceeded = True
    except RecursionError as e:
        res.exc = e
    except Exception as e:
        res.exc = e
    finally:
        sys.settrace(old)
    res.lines = count[0]
    res.funcs = funcs
    return res


def result_size(obj, _seen=None):
    """container elements + string/bytes lengths reachable from a decoded frame"""
    total = 0
    stack = [obj]
    seen = set()
    while stack:
        x = stack.pop()
        if isinstance(x, (str, bytes, bytearray)):
            total += len(x)
        elif isinstance(x, dict):
            total += len(x)
            for k, v in x.items():
                total += len(k) if isinstance(k, (str, bytes)) else 1
                stack.append(v)
        elif isinstance(x, (list, tuple)):
            total += len(x)
            stack.extend(x)
        elif x is None or isinstance(x, (int, float, bool)):
            total += 1
        elif id(x) not in seen:
            seen.add(id(x))
            slots = getattr(type(x), '__slots__', None)
            names = list(slots) if slots else []
            names += list(getattr(x, '__dict__', {}))
            for n in names:
                stack.append(getattr(x, n, None))
    return total
