"""Hypothesis strategies shared by the property modules.  Never imports pamqp.

Everything is built by construction (no filter/assume on the hot path).
"""
import datetime
import decimal
import math
import time

decimal = decimal          # re-exported for property modules

from hypothesis import strategies as st

from pbt import canon, spec_table

# ---------------------------------------------------------------- integers

LADDER_EDGES = sorted({e + d
                       for e in (-2**63, -2**31, -2**15, -2**7, 0, 2**7, 2**8,
                                 2**15, 2**16, 2**31, 2**32, 2**63)
                       for d in (-2, -1, 0, 1, 2)})
ENCODABLE_EDGES = [e for e in LADDER_EDGES if -2**63 <= e <= 2**63 - 1]


def table_ints():
    return st.one_of(
        st.sampled_from(ENCODABLE_EDGES),
        st.integers(-128, 127),
        st.integers(-32768, 65535),
        st.integers(-2**31, 2**32 - 1),
        st.integers(-2**63, 2**63 - 1),
    )


def near_edge(n):
    return any(abs(n - e) <= 2 for e in
               (-2**63, -2**31, -2**15, -2**7, 2**7, 2**8, 2**15, 2**16, 2**31,
                2**32, 2**63))


# ---------------------------------------------------------------- floats

F32_MAX = 3.4028234663852886e38              # largest finite single
F32_OVERFLOW = 3.4028235677973366e38         # F32_MAX + 2**103: first double -> inf

def table_floats():
    """floats whose single-precision rounding is finite, plus +-inf and NaN"""
    # the exact domain: doubles whose IEEE-single rounding is finite, i.e.
    # |x| < FLT_MAX + half an ulp = 3.4028235677973366e38 (which itself rounds to inf)
    top = math.nextafter(F32_OVERFLOW, 0.0)
    return st.one_of(
        st.floats(width=32, allow_nan=False),
        st.floats(min_value=-top, max_value=top, allow_nan=False),
        st.floats(min_value=F32_MAX, max_value=top),
        st.floats(min_value=-top, max_value=-F32_MAX),
        st.sampled_from([0.0, -0.0, float('inf'), float('-inf'), float('nan'),
                         1e-45, -1e-45, F32_MAX, -F32_MAX, top, -top,
                         math.nextafter(F32_MAX, math.inf), 3.4028235e38,
                         3.40282350000000003e38, 1.17549435e-38, 0.1, 1 / 3,
                         math.nextafter(F32_MAX, 0.0)]),
    )


# ---------------------------------------------------------------- decimals

def table_decimals():
    """scale 0..255, 32-bit signed unscaled value, built from the tuple form so that
    scales beyond the digit count (where str() switches to exponent notation) occur."""
    def build(unscaled, scale):
        sign = 1 if unscaled < 0 else 0
        digits = tuple(int(c) for c in str(abs(unscaled)))
        return decimal.Decimal((sign, digits, -scale))
    unscaled = st.one_of(st.integers(-2**31, 2**31 - 1),
                         st.integers(-1000, 1000),
                         st.sampled_from([0, 1, -1, 2**31 - 1, -2**31, 15,
                                          -15, 10, 100, -100]))
    scale = st.one_of(st.integers(0, 255), st.integers(0, 12),
                      st.sampled_from([0, 1, 6, 7, 8, 9, 28, 29, 255]))
    def build_pos(coefficient, exponent):
        # written with a positive exponent (1E+2, 2.5E+3 after normalize(), ...): scale 0 and
        # the unscaled value coefficient * 10**exponent, kept within 32 bits
        while abs(coefficient) * 10 ** exponent > 2**31 - 1:
            exponent -= 1
        sign = 1 if coefficient < 0 else 0
        digits = tuple(int(c) for c in str(abs(coefficient)))
        return decimal.Decimal((sign, digits, exponent))
    positive = st.builds(build_pos,
                         st.one_of(st.integers(-2147, 2147),
                                   st.integers(-2**31, 2**31 - 1),
                                   st.sampled_from([1, -1, 25, 12, 2, 0])),
                         st.integers(1, 9))
    return st.one_of(st.builds(build, unscaled, scale), st.builds(build, unscaled, scale),
                     st.builds(build, unscaled, scale), positive)


# ---------------------------------------------------------------- strings

UNICODE = st.characters(exclude_categories=['Cs'])
SPECIALS = '\x00\x7f\x80\u07ff\u0800\uffff\U00010000\U0010ffff\xce\ufeff\ufffe\ufffd'
MIXED_CHARS = st.one_of(
    st.characters(min_codepoint=0x20, max_codepoint=0x7e),
    st.characters(min_codepoint=0x20, max_codepoint=0x7e),
    UNICODE,
    st.sampled_from(SPECIALS),
)


def mixed_text(min_size=0, max_size=40):
    """text over MIXED_CHARS with the weights kept.  st.text(alphabet=one_of(...)) merges the
    character strategies into one interval set, after which the 12 special characters are
    12 points among 1.1 million: measured, U+FEFF did not occur once in 5000 strings.  Here
    every character is its own draw, and a special character is put first / last / in the
    middle of an otherwise plain string in a quarter of the cases."""
    per_char = st.lists(MIXED_CHARS, min_size=min_size, max_size=max_size).map(''.join)
    if max_size < 1:
        return per_char

    def place(special, body, where):
        if where == 0:
            return special + body
        if where == 1:
            return body + special
        return body[:len(body) // 2] + special + body[len(body) // 2:]
    plain = st.text(st.characters(min_codepoint=0x20, max_codepoint=0x7e) | UNICODE,
                    min_size=max(0, min_size - 1), max_size=max_size - 1)
    edged = st.builds(place, st.sampled_from(SPECIALS), plain, st.integers(0, 2))
    return st.one_of(per_char, per_char, per_char, edged)


def surrogate_strs():
    """str values containing lone surrogates - in particular the PEP 383
    (surrogateescape) image of valid multi-byte UTF-8, which a lenient codec would
    silently turn into different text"""
    def escaped(t):
        return ''.join(chr(0xDC00 + b) if b >= 0x80 else chr(b)
                       for b in t.encode('utf-8'))
    nonascii = st.text(st.characters(min_codepoint=0x80, exclude_categories=['Cs']),
                       min_size=1, max_size=4)
    return st.one_of(
        st.builds(lambda a, t, b: a + escaped(t) + b, st.text(max_size=3), nonascii,
                  st.text(max_size=3)),
        st.text(st.characters(min_codepoint=0xD800, max_codepoint=0xDFFF), min_size=1,
                max_size=3),
        st.builds(lambda a, c: a + c, st.text(max_size=4),
                  st.characters(min_codepoint=0xDC80, max_codepoint=0xDCFF)),
        st.sampled_from(['caf\udcc3\udca9', '\udce2\udc82\udcac', '\ud83d\ude00',
                         '\udcf0\udc9f\udc98\udc80', '\udcc3', '\udcff\udcfe']))


def texts(max_size=40):
    return mixed_text(0, max_size)


def _fit_bytes(s, limit):
    while len(s.encode('utf-8')) > limit:
        s = s[:-1]
    return s


def shortstrs(max_bytes=255):
    """str with at most max_bytes UTF-8 bytes (by construction)"""
    return st.one_of(
        texts(24),
        mixed_text(0, max_bytes),
        st.builds(lambda c, n: c * n, st.sampled_from('a\xe9€\U0001f600'),
                  st.sampled_from([1, 63, 64, 85, 127, 128, 254, 255])),
    ).map(lambda s: _fit_bytes(s, max_bytes))


def table_keys():
    """<= 128 characters and <= 255 UTF-8 bytes; '' included"""
    from pbt import harvest
    words = [w for w in harvest.key_like() if len(w) <= 128 and
             '\ud800' <= 'a'] or ['k']
    return st.one_of(
        st.sampled_from(words),
        mixed_text(0, 12),
        st.text(st.characters(min_codepoint=0x61, max_codepoint=0x7a),
                min_size=1, max_size=6),
        mixed_text(0, 128),
        st.sampled_from(['', 'a' * 128, 'x-' + 'k' * 100, '\xe9' * 127]),
    ).map(lambda s: _fit_bytes(s[:128], 255))


def longstrs():
    """long strings crossing 255 and 65535 bytes"""
    tile = mixed_text(1, 16)
    return st.one_of(
        texts(40), texts(40), texts(300),
        st.builds(lambda t, n: (t * (n // len(t) + 1))[:n], tile,
                  st.sampled_from([254, 255, 256, 257, 4096, 65535, 65536,
                                   70000, 131056, 131057, 131072, 200000,
                                   1048576])),
    )


# ---------------------------------------------------------------- time

MAX_TS = 2**32 - 1


def _dt(seconds, micro, kind, offset_min):
    if kind == 'naive':
        y, mo, d, h, mi, s = canon.utc_fields(seconds)
        return datetime.datetime(y, mo, d, h, mi, s, micro)
    if kind == 'nulltz':     # tzinfo present but utcoffset() is None: still naive
        y, mo, d, h, mi, s = canon.utc_fields(seconds)
        return datetime.datetime(y, mo, d, h, mi, s, micro, tzinfo=canon.NULLTZ)
    if kind == 'utc':
        y, mo, d, h, mi, s = canon.utc_fields(seconds)
        return datetime.datetime(y, mo, d, h, mi, s, micro,
                                 tzinfo=datetime.timezone.utc)
    if kind == 'ruletz':     # aware, DST rules; the repeated hour comes out with fold=1
        y, mo, d, h, mi, s = canon.utc_fields(seconds)
        utc = datetime.datetime(y, mo, d, h, mi, s, micro, tzinfo=canon.RULETZ)
        return canon.RULETZ.fromutc(utc)
    if kind == 'offset_us':  # aware, UTC offset with seconds and microseconds (PEP 615 ok)
        off = datetime.timedelta(minutes=offset_min, seconds=offset_min % 60,
                                 microseconds=(offset_min * 7919 + 500000) % 1000000)
        tz = datetime.timezone(off)
        y, mo, d, h, mi, s = canon.utc_fields(seconds)
        utc = datetime.datetime(y, mo, d, h, mi, s, micro,
                                tzinfo=datetime.timezone.utc)
        return utc.astimezone(tz)
    tz = datetime.timezone(datetime.timedelta(minutes=offset_min))
    y, mo, d, h, mi, s = canon.utc_fields(seconds + offset_min * 60)
    return datetime.datetime(y, mo, d, h, mi, s, micro, tzinfo=tz)


def fold_pair(year, minute, micro=0):
    """(fold=0, fold=1) datetimes with identical wall time in the repeated hour of
    `year` under RULETZ: equal by ==, one hour apart as instants"""
    start, end = canon.RULETZ._range(year)
    wall = end - datetime.timedelta(hours=1) + datetime.timedelta(
        minutes=minute % 60, microseconds=micro)
    a = wall.replace(tzinfo=canon.RULETZ, fold=0)
    return a, a.replace(fold=1)


def epoch_seconds_st():
    return st.one_of(
        st.integers(0, MAX_TS),
        st.sampled_from([0, 1, 59, 86399, 86400, 951782400, 2**31 - 1, 2**31,
                         MAX_TS - 1, MAX_TS, 1700000000]))


def datetimes(kinds=('naive', 'utc', 'offset', 'nulltz', 'ruletz', 'offset_us')):
    """instants epoch..2106-02-07T06:28:15, with microseconds"""
    return st.builds(
        _dt, epoch_seconds_st(),
        st.one_of(st.just(0), st.integers(0, 999999), st.just(999999)),
        st.sampled_from(kinds),
        st.one_of(st.integers(-1439, 1439),
                  st.sampled_from([-720, -300, 60, 330, 840])))


def _struct_time(seconds):
    y, mo, d, h, mi, s = canon.utc_fields(seconds)
    days = seconds // 86400
    yday = days - canon.days_from_civil(y, 1, 1) + 1
    return time.struct_time((y, mo, d, h, mi, s, (days + 3) % 7, yday, 0))


def _struct_time_gmtoff(seconds, gmtoff):
    """an 11-field struct_time as time.localtime() / strptime('%z') produce: the visible
    fields are what counts ('read as UTC'), tm_gmtoff is along for the ride"""
    st9 = _struct_time(seconds)
    return time.struct_time(tuple(st9) + ('XYZ', gmtoff))


def struct_times():
    return st.one_of(
        epoch_seconds_st().map(_struct_time),
        st.builds(_struct_time_gmtoff, epoch_seconds_st(),
                  st.sampled_from([0, 3600, -18000, 19800, 50400, -43200, 1])))


# ---------------------------------------------------------------- refused leaves

def bad_leaves():
    """values the encoder refuses inside a table, one per *kind of exception* it uses
    (OverflowError, struct.error, ValueError, UnicodeEncodeError, decimal signals,
    TypeError) - what matters is what the library does *afterwards*"""
    return st.sampled_from([
        1e39, -1e300,                                        # OverflowError
        datetime.datetime(1969, 12, 31, 23, 0, 0),           # struct.error (negative)
        datetime.datetime(1960, 1, 1, tzinfo=datetime.timezone.utc),
        decimal.Decimal('12345678901234567890.5'),           # struct.error (32 bit)
        decimal.Decimal('1E-300'),                           # struct.error (scale)
        # decimal signals (Overflow / Inexact in the thread's context); huge *positive*
        # exponents are left out: int(Decimal('1E+1000000')) takes minutes by itself
        decimal.Decimal('1E-1000000'), decimal.Decimal('-1E-999999'),
        decimal.Decimal('1E-1000001'), decimal.Decimal('1E+400'),
        decimal.Decimal('NaN'), decimal.Decimal('Infinity'),  # ValueError / OverflowError
        '\ud800', 'a\udfff',                                 # UnicodeEncodeError
        2 ** 64, -2 ** 63 - 1,                               # TypeError
        (1, 2), b'bytes', {1, 2}, 1j, canon.Opaque(),        # TypeError (unknown type)
    ])


def bad_tables():
    """a small valid table with exactly one refused leaf somewhere inside; returns
    (table, path) where path locates the bad leaf (for repair)"""
    def build(bad, shape, key):
        if shape == 0:
            return {'ok': 1, key: bad}
        if shape == 1:
            return {'ok': 1, 'inner': {key: bad, 'z': 'v'}}
        if shape == 2:
            return {'ok': [1, bad, 'x']}
        if shape == 3:
            return {'a': {'b': [{'c': bad}]}, 'ok': True}
        return {'\u20ac' * 100: 1, 'ok': 2} if shape == 4 else {key: [bad]}
    return st.builds(build, bad_leaves(), st.integers(0, 5),
                     st.sampled_from(['bad', 'x', '']))


def repair(v, good=7):
    """the same containers with every refused leaf replaced in place by `good`"""
    bad_types = (float, datetime.datetime, decimal.Decimal, str, int, tuple, bytes, set,
                 complex, canon.Opaque)

    def is_bad(x):
        if isinstance(x, bool) or x is None:
            return False
        if isinstance(x, float):
            return abs(x) > 3.5e38
        if isinstance(x, datetime.datetime):
            return x.year < 1970
        if isinstance(x, decimal.Decimal):
            return True
        if isinstance(x, str):
            return any('\ud800' <= c <= '\udfff' for c in x)
        if isinstance(x, int):
            return not -2 ** 63 <= x < 2 ** 63
        return isinstance(x, (tuple, bytes, set, complex, canon.Opaque))
    if isinstance(v, dict):
        for k in list(v):
            if len(k.encode('utf-8', 'surrogatepass')) > 255:
                v['short'] = v.pop(k)
                k = 'short'
            if isinstance(v[k], (dict, list)):
                repair(v[k], good)
            elif is_bad(v[k]):
                v[k] = good
    elif isinstance(v, list):
        for i, x in enumerate(v):
            if isinstance(x, (dict, list)):
                repair(x, good)
            elif is_bad(x):
                v[i] = good
    return v


# ---------------------------------------------------------------- field values

def twin_lists():
    """two equal-comparing but distinguishable values side by side in one array"""
    return st.one_of(
        st.builds(lambda y, m, us, o: list(fold_pair(y, m, us))[::1 if o else -1],
                  st.integers(1971, 2105), st.integers(0, 59), st.integers(0, 999999),
                  st.booleans()),
        st.sampled_from([[1.0, 1], [1, 1.0], [True, 1], [0, False, 0.0],
                         [decimal.Decimal('1.0'), decimal.Decimal('1.00')],
                         [canon.IntSub(40000), 40000], [40000, canon.IntSub(40000)],
                         [canon.IntSub(3000000000)], [canon.IntSub(-5), canon.IntSub(200)]]))


def leaves():
    return st.one_of(
        twin_lists(),
        st.booleans(),
        table_ints(),
        table_ints(),
        table_floats(),
        table_decimals(),
        texts(),
        st.binary(max_size=24).map(bytearray),
        datetimes(),
        struct_times(),
        st.none(),
    )


def field_values(max_leaves=12, leaf=None):
    leaf = leaf or leaves()
    return st.recursive(
        leaf,
        lambda children: st.one_of(
            st.lists(children, max_size=5),
            st.dictionaries(table_keys(), children, max_size=5)),
        max_leaves=max_leaves)


def tables(max_leaves=12, leaf=None, min_size=0):
    return st.dictionaries(table_keys(), field_values(max_leaves, leaf),
                           min_size=min_size, max_size=6)


def deep_values(max_depth=32, leaf=None):
    """a chain of `depth` containers (list / dict, drawn per level) around a leaf, with
    an optional sibling leaf at every level"""
    leaf = leaf or leaves()

    def build(layers, core):
        v = core
        for kind, key, sib in reversed(layers):
            if kind == 'A':
                v = [v] if sib is None else [sib, v]
            else:
                v = {key: v}
                if sib is not None:
                    v[key + '~'] = sib
        return v
    layer = st.tuples(st.sampled_from('AF'),
                      st.text(st.characters(min_codepoint=0x61,
                                            max_codepoint=0x7a), max_size=3),
                      st.one_of(st.none(), st.none(), leaf))
    # draw the depth explicitly: st.lists(max_size=N) alone almost never gets long
    layers = st.integers(1, max_depth).flatmap(
        lambda d: st.lists(layer, min_size=d, max_size=d))
    return st.builds(build, layers, leaf)


def depth_of(v):
    if isinstance(v, list):
        return 1 + max([depth_of(x) for x in v] or [0])
    if isinstance(v, dict):
        return 1 + max([depth_of(x) for x in v.values()] or [0])
    return 0


def walk(v):
    yield v
    if isinstance(v, list):
        for x in v:
            yield from walk(x)
    elif isinstance(v, dict):
        for x in v.values():
            yield from walk(x)


# ---------------------------------------------------------------- method frames

NAME_CHARS = ''.join(sorted(spec_table.NAME_ALPHABET))
_CONSTRAINED = {}
for _c, _s in spec_table.EXCHANGE_NAME_SLOTS:
    _CONSTRAINED[(_c, _s)] = ('name', spec_table.EXCHANGE_NAME_MAX)
for _c, _s in spec_table.QUEUE_NAME_SLOTS:
    _CONSTRAINED[(_c, _s)] = ('name', 255)      # 256 chars allowed, 255 bytes fit
for _c, _s in spec_table.PATH_SLOTS:
    _CONSTRAINED[(_c, _s)] = ('path', spec_table.PATH_MAX)
for _c in spec_table.TICKET_CLASSES:
    _CONSTRAINED[(_c, 'ticket')] = ('fixed', 0)
for _c, _s, _v in spec_table.FIXED_SLOTS:
    _CONSTRAINED[(_c, _s)] = ('fixed', _v)

CHANNELS = st.one_of(st.sampled_from([0, 1, 255, 256, 32767, 32768, 65535]),
                     st.integers(0, 65535))


def names(max_len):
    return st.one_of(
        st.text(st.sampled_from(NAME_CHARS), max_size=20),
        st.text(st.sampled_from(NAME_CHARS), max_size=max_len),
        st.sampled_from(['', 'a' * max_len, 'amq.direct', 'x/y:z@w#v,u t.s-r_q']),
    )


def slot_values(dotted, field, table_leaves=8, big=True):
    """valid (accepted by the library's validators) values of the slot's wire type"""
    c = _CONSTRAINED.get((dotted, field.name))
    if c:
        kind, arg = c
        if kind == 'fixed':
            return st.just(arg)
        if kind == 'name':
            return names(arg)
        if kind == 'path':
            return shortstrs(255).map(lambda s: s[:arg])
    t = field.type
    if t == 'octet':
        return st.one_of(st.integers(0, 255), st.sampled_from([0, 127, 128, 255]))
    if t == 'short':
        return st.one_of(st.integers(0, 65535),
                         st.sampled_from([0, 255, 256, 32767, 32768, 65535]))
    if t == 'long':
        return st.one_of(st.integers(0, 2**32 - 1),
                         st.sampled_from([0, 65535, 65536, 2**31 - 1, 2**31,
                                          2**32 - 1]))
    if t == 'longlong':
        return st.one_of(st.integers(-2**63, 2**63 - 1),
                         st.sampled_from([0, -1, 2**31, 2**32, 2**63 - 1,
                                          -2**63]))
    if t == 'bit':
        return st.booleans()
    if t == 'shortstr':
        return shortstrs()
    if t == 'longstr':
        return longstrs() if big else texts(60)
    if t == 'table':
        return st.one_of(st.just({}), tables(table_leaves), tables(table_leaves))
    raise AssertionError(t)


def method_args(dotted, table_leaves=8, big=True):
    m = spec_table.BY_NAME[dotted]
    if not m.fields:
        return st.just({})
    return st.fixed_dictionaries(
        {f.name: slot_values(dotted, f, table_leaves, big) for f in m.fields})


def method_cases(table_leaves=8, big=True):
    """case = {'cls': dotted, 'args': {...}, 'ch': channel}"""
    return st.sampled_from([m.dotted for m in spec_table.METHODS]).flatmap(
        lambda d: st.fixed_dictionaries({
            'cls': st.just(d), 'args': method_args(d, table_leaves, big),
            'ch': CHANNELS}))


# ---------------------------------------------------------------- properties

def property_value(name, wire_type):
    if name == 'delivery_mode':
        return st.sampled_from([1, 2])
    if name == 'cluster_id':
        return st.just('')
    if wire_type == 'octet':
        return st.one_of(st.integers(0, 255), st.sampled_from([0, 9, 255]))
    if wire_type == 'shortstr':
        return shortstrs().filter(lambda s: s != '') | st.just('x')
    if wire_type == 'table':
        return st.one_of(st.just({}), tables(6), tables(6))
    if wire_type == 'timestamp':
        return datetimes()
    raise AssertionError(wire_type)


SETTABLE = [(n, w) for n, _, w, _ in spec_table.PROPERTIES if n != 'cluster_id']

BODY_SIZES = st.one_of(
    st.sampled_from([0, 1, 2**32 - 1, 2**32, 2**63 - 1, 2**63, 2**64 - 1]),
    st.integers(0, 2**64 - 1), st.integers(0, 2**20))


def property_sets(mask=None):
    """dict name->value for the subset given by the 13-bit mask (bit i = SETTABLE[i])"""
    def for_mask(m):
        return st.fixed_dictionaries(
            {n: property_value(n, w) for i, (n, w) in enumerate(SETTABLE)
             if m >> i & 1})
    if mask is not None:
        return for_mask(mask)
    return st.integers(0, 2**13 - 1).flatmap(for_mask)


def header_cases():
    return st.fixed_dictionaries({'props': property_sets(),
                                  'body_size': BODY_SIZES, 'ch': CHANNELS})


def big_header_cases():
    """content headers whose payload crosses 64 KiB / 128 KiB (a long header value)"""
    sizes = st.sampled_from([65000, 65536, 131000, 131040, 131072, 131100, 140000,
                             200000])
    return st.builds(
        lambda c, n, key: dict(c, props=dict(c['props'], headers={key: 'h' * n})),
        header_cases(), sizes, table_keys())


# ---------------------------------------------------------------- bodies etc.

def bodies(max_len=131072):
    tile = st.one_of(st.binary(min_size=1, max_size=64),
                     st.sampled_from([b'\xce', b'AMQP\x00\x00\x09\x01',
                                      b'\x01\x00\x01\x00\x00\x00\x04',
                                      b'\x08\x00\x00\x00\x00\x00\x00\xce',
                                      b'\x00', b'\xff']))
    lengths = st.one_of(
        st.integers(1, 64), st.integers(1, 4200),
        st.sampled_from([1, 7, 8, 4088, 4095, 4096, 4097, 65535, 65536,
                         131064, 131071, 131072]))
    lengths = lengths.map(lambda n: min(n, max_len))
    def build(t, n, tail):
        b = (t * (n // len(t) + 1))[:n]
        if tail and n > len(tail):
            b = b[:n - len(tail)] + tail
        return b
    return st.builds(build, tile, lengths,
                     st.sampled_from([b'', b'', b'\xce', b'AMQP', b'\xce\xce']))


def any_frame_cases(big_bodies=True):
    """case = {'kind': ..., ...} for all five frame kinds"""
    big = []
    if big_bodies:       # frames of every kind beyond 64 KiB / 128 KiB, not only bodies
        big = [st.one_of(
            method_cases(table_leaves=4, big=True).map(
                lambda c: dict(c, kind='method')),
            big_header_cases().map(lambda c: dict(c, kind='header')))]
    return st.one_of(
        method_cases(table_leaves=5, big=False).map(
            lambda c: dict(c, kind='method')),
        method_cases(table_leaves=5, big=False).map(
            lambda c: dict(c, kind='method')),
        header_cases().map(lambda c: dict(c, kind='header')),
        *big,
        st.fixed_dictionaries({'kind': st.just('body'),
                               'data': bodies(131072 if big_bodies else 600),
                               'ch': CHANNELS}),
        st.fixed_dictionaries({'kind': st.just('heartbeat'), 'ch': st.just(0)}),
        st.fixed_dictionaries({'kind': st.just('protocol'), 'ch': st.just(0),
                               'version': st.tuples(st.integers(0, 255),
                                                    st.integers(0, 255),
                                                    st.integers(0, 255))}),
    )
