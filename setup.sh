#!/bin/sh
# Offline setup: make sure hypothesis is importable by /venv/bin/python; if not,
# install it from the local wheelhouse into /verif/.deps (no network).
cd "$(dirname "$0")" || exit 1
PY="${VERIF_PYTHON:-/venv/bin/python}"
if ! "$PY" -c 'import hypothesis' 2>/dev/null; then
  "$PY" -m pip install --no-index --find-links /opt/veriftools/wheels \
      --target .deps hypothesis || exit 1
fi
PYTHONPATH=.deps "$PY" -B -c 'import hypothesis, sys; sys.path.insert(0, "/repo"); import pamqp; print("setup ok: hypothesis", hypothesis.__version__, "pamqp", pamqp.__version__)'
