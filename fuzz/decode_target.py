#!/opt/veriftools/pyvenv/bin/python
"""atheris (libFuzzer) target for the decoder, with the semantic oracles of C06 (envelope
clause), C08 (step budget, result size) and C09 (exception type) inside the target.

Run under python3-vt:  PYTHONPATH=/verif:$PAMQP_REPO python3-vt fuzz/decode_target.py
                       -runs=N -seed=S <corpus dir>
A violation is reported as an uncaught exception whose message starts with
``ORACLE <property> <bucket>``; libFuzzer then saves the input as crash-*.
The library keeps no state between calls except the legacy-integer switch, which the
target resets at the top of every iteration.
"""
import os
import sys

sys.dont_write_bytecode = True
HERE = os.path.dirname(os.path.dirname(os.path.abspath(__file__)))
REPO = os.environ.get('PAMQP_REPO', '/repo')
for p in (HERE, REPO):
    if p not in sys.path:
        sys.path.insert(0, p)
import warnings
warnings.simplefilter('ignore')
import logging
logging.disable(logging.CRITICAL)

import atheris

with atheris.instrument_imports(include=['pamqp']):
    import pamqp
    from pamqp import encode, exceptions, frame

from pbt import budget

assert os.path.realpath(os.path.dirname(pamqp.__file__)) == \
    os.path.realpath(os.path.join(REPO, 'pamqp')), pamqp.__file__

WHICH = set(os.environ.get('FUZZ_ORACLES', 'C06,C08,C09').split(','))
LOOPS = {'field_table', 'field_array', '_get_flags'}
TYPE_OF = {1: 'Frame', 2: 'ContentHeader', 3: 'ContentBody', 8: 'Heartbeat'}


class OracleViolation(Exception):
    pass


def kind_of(obj):
    from pamqp import base, body, header, heartbeat
    if isinstance(obj, header.ProtocolHeader):
        return 'ProtocolHeader'
    if isinstance(obj, heartbeat.Heartbeat):
        return 'Heartbeat'
    if isinstance(obj, body.ContentBody):
        return 'ContentBody'
    if isinstance(obj, header.ContentHeader):
        return 'ContentHeader'
    if isinstance(obj, base.Frame):
        return 'Frame'
    return type(obj).__name__


def one_input(data):
    encode.support_deprecated_rabbitmq(False)
    if 'C08' in WHICH:
        r = budget.run(frame.unmarshal, data)
        if r.exceeded:
            raise OracleViolation('ORACLE C08 steps@%s: %d bytes, > %d line events' % (
                '+'.join(sorted(r.funcs & LOOPS) or ['other']), len(data),
                budget.limit_for(len(data))))
        exc, value = r.exc, r.value
        if exc is None and value is not None and \
                budget.result_size(value[2]) > 64 + 2 * len(data):
            raise OracleViolation('ORACLE C08 result-size: %d bytes' % len(data))
    else:
        # the budget only aborts runaway inputs here; it is judged by C08's campaign
        r = budget.run(frame.unmarshal, data, 50 * budget.limit_for(len(data)))
        if r.exceeded:
            return
        exc, value = r.exc, r.value
    if exc is not None:
        if 'C09' in WHICH and not isinstance(
                exc, (exceptions.UnmarshalingException, RecursionError)):
            raise OracleViolation('ORACLE C09 escapes:%s: %r' % (
                type(exc).__name__, exc))
        return
    if 'C06' in WHICH and value is not None:
        n, ch, obj = value
        k = kind_of(obj)
        if k == 'ProtocolHeader':
            ok = data[:4] == b'AMQP' and n == 8 and ch == 0 and len(data) >= 8
        else:
            ok = (len(data) >= 8 and TYPE_OF.get(data[0]) == k and
                  ch == int.from_bytes(data[1:3], 'big') and
                  n == int.from_bytes(data[3:7], 'big') + 8 and n <= len(data) and
                  data[n - 1] == 0xCE)
        if not ok:
            raise OracleViolation('ORACLE C06 envelope: %s consumed=%r channel=%r for '
                                  'header %s' % (k, n, ch, data[:7].hex()))


def main():
    atheris.Setup(sys.argv, one_input)
    atheris.Fuzz()


if __name__ == '__main__':
    main()
