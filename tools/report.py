#!/venv/bin/python
"""Print the markdown tables for DESIGN.md sections 8.6 / 8.7 from sensitivity/results.json,
seeded/*/meta.json and seeded/matrix.json."""
import json, os, sys
VERIF = os.path.dirname(os.path.dirname(os.path.abspath(__file__)))
sp = sys.argv[1] if len(sys.argv) > 1 else os.path.join(VERIF, 'sensitivity', 'results.json')
if os.path.exists(sp):
    res = json.load(open(sp))
    print('### 8.6 First-order mutants (tools/sensitivity.py)\n')
    print('| mutant | what | repo tests | checks run -> exit | verdict |')
    print('|---|---|---|---|---|')
    for r in res:
        print('| %s | %s | %s | %s | %s |' % (
            r['id'], r['note'] or '-', 'pass' if r['tests_pass'] else 'fail',
            ', '.join('%s:%d' % (k, v['exit']) for k, v in r['checks'].items()), r['verdict']))
    n = len(res); tp = [r for r in res if r['tests_pass']]
    print('\n%d mutants; %d survive the repository tests, of which %d are caught by an owning check; '
          'missed: %s' % (n, len(tp), sum(1 for r in tp if r['caught_by']),
                          [r['id'] for r in tp if not r['caught_by']] or 'none'))
sd = os.path.join(VERIF, 'seeded')
print('\n### 8.7 Independently seeded changes (sub-agents; seeded/<name>/)\n')
print('| name | property | change (needs to manifest) | owning check | buckets |')
print('|---|---|---|---|---|')
for n in sorted(os.listdir(sd)):
    mp = os.path.join(sd, n, 'meta.json')
    if not os.path.exists(mp):
        continue
    m = json.load(open(mp))
    c = m['checks'].get(m['breaks_property'], {})
    print('| %s | %s | %s | exit %s%s | %s |' % (
        n, m['breaks_property'], (m.get('needs_to_manifest') or m.get('summary') or '')[:160],
        c.get('exit'), ' (after strengthening)' if (m.get('history') or '').startswith(('MISSED', 'first run', 'the decode clause')) or 'MISSED first' in (m.get('history') or '') else '',
        ', '.join(c.get('buckets', [])[:3])))
mx = os.path.join(sd, 'matrix.json')
if os.path.exists(mx):
    M = json.load(open(mx))
    checks = ['C%02d' % i for i in range(1, 21)]
    print('\nCross-check matrix (1 = check fails on the change, 0 = passes, 2 = inconclusive):\n')
    print('| change | ' + ' | '.join(c[1:] for c in checks) + ' |')
    print('|---|' + '---|' * len(checks))
    for n in sorted(M):
        print('| %s | ' % n + ' | '.join(str(M[n].get(c, '')) for c in checks) + ' |')

# ---------------------------------------------------------------- components as built
if '--components' in sys.argv:
    sys.path.insert(0, VERIF); sys.path.insert(0, os.environ.get('PAMQP_REPO', '/repo'))
    import importlib
    print('\n### 8.5 Components as built (from the property modules)\n')
    print('| property | component | kind | quick / thorough budget | what |')
    print('|---|---|---|---|---|')
    for i in range(1, 21):
        mod = importlib.import_module('pbt.props.c%02d' % i)
        for c in mod.COMPONENTS:
            if c.kind == 'hyp':
                b = '%d / %d cases' % (c.budget['quick'], c.budget['thorough'])
            else:
                b = 'enumerated' + (' (exhaustive)' if c.exhaustive else '')
            print('| %s | %s | %s | %s | %s |' % (mod.PROPERTY_ID, c.name, c.kind, b, c.describe))
