#!/venv/bin/python
"""Sensitivity campaign: apply first-order mutants (one at a time) to a scratch copy of
/repo outside /repo and /verif, check that the repository's own tests still pass, and run
the owning check(s) through PAMQP_REPO.  A mutant that passes the tests but is not caught
by its owning check is a hole in the machinery.

usage: tools/sensitivity.py [--only ID[,ID]] [--props C03,C11] [--out FILE]
"""
import argparse
import json
import os
import shutil
import subprocess
import sys
import time

VERIF = os.path.dirname(os.path.dirname(os.path.abspath(__file__)))
REPO = '/repo'
SCRATCH = '/tmp/verif-mutants'

# (id, file, old, new, [properties expected to catch], note)
M = []


def mut(mid, file, old, new, props, note='', count=1):
    M.append({'id': mid, 'file': file, 'old': old, 'new': new, 'props': props,
              'note': note, 'count': count})


B, E, D, F, H, C = ('pamqp/base.py', 'pamqp/encode.py', 'pamqp/decode.py',
                    'pamqp/frame.py', 'pamqp/header.py', 'pamqp/commands.py')

# ---- C01
mut('c01-bit-offset', B, "            if data_type == 'bit':\n                offset += 1\n",
    "            if data_type == 'bit':\n                offset += 0\n", ['C01'],
    'stop incrementing the bit offset in Frame.unmarshal')
mut('c01-swap-slots-consume', C, "            'ticket', 'queue', 'consumer_tag', 'no_local', 'no_ack',\n",
    "            'ticket', 'queue', 'consumer_tag', 'no_ack', 'no_local',\n",
    ['C04', 'C14', 'C19'], 'swap two __slots__ entries of Basic.Consume (symmetric)')
mut('c01-frame-max-short', C, "        _frame_max = 'long'", "        _frame_max = 'short'",
    ['C01', 'C04', 'C14'], 'Connection.Tune frame_max as short', count=1)
mut('c01-index-commit', C, "        index = 0x005A0014  # pamqp Mapping Index",
    "        index = 0x005A0015  # pamqp Mapping Index", ['C01', 'C04', 'C14'],
    'Tx.Commit index changed to CommitOk')
mut('c01-consumed-plus-one', B, "            if consumed:\n                data = data[consumed:]",
    "            if consumed:\n                data = data[consumed + 1:]", ['C01', 'C05'],
    'skip one byte after every argument')
# ---- C02
mut('c02-swap-flags', C, "            'content_type': 32768,\n            'content_encoding': 16384,",
    "            'content_type': 16384,\n            'content_encoding': 32768,",
    ['C04', 'C14', 'C05'], 'swap two flag constants (symmetric)')
mut('c02-truthiness', B, "            if property_value is not None and property_value != '':",
    "            if property_value:", ['C02', 'C04'], 'drops priority=0 and headers={}')
mut('c02-flag-octet', H, "            consumed, partial_flags = decode.short_int(\n                data[bytes_consumed:])",
    "            consumed, partial_flags = decode.short_short_int(\n                data[bytes_consumed:])",
    ['C02', 'C05'], 'read the flag word with an 8-bit decoder')
mut('c02-skip-property', B, "            if flags & self.flags[property_name]:",
    "            if flags & self.flags[property_name] and property_name != 'reply_to':",
    ['C02', 'C05'], 'skip one property in unmarshal')
mut('c02-bodysize-32', H, "        return struct.pack('>HxxQ', commands.Basic.frame_id,",
    "        return struct.pack('>HxxxxxxI', commands.Basic.frame_id,", ['C02', 'C04', 'C10'],
    'body size packed as 32 bits (same layout for small sizes)')
# ---- C03
mut('c03-int-before-bool', E, "    if isinstance(value, bool):\n        return b't' + boolean(value)\n    elif isinstance(value, int):\n        return table_integer(value)",
    "    if isinstance(value, int) and value is not True and value is not False or isinstance(value, bool) and False:\n        return table_integer(value)\n    elif isinstance(value, int):\n        return table_integer(int(value))",
    ['C03', 'C04'], 'bool encoded as integer')
mut('c03-u-signed', D, "    b'u': short_uint,", "    b'u': short_int,", ['C03', 'C05'],
    'TABLE_MAPPING[u] decoded signed')
mut('c03-ladder-32767', E, "    elif -32768 <= value <= 32767:\n        return b's' + short_int(value)\n    elif 0 <= value <= 65535:",
    "    elif -32767 <= value <= 32767:\n        return b's' + short_int(value)\n    elif 0 <= value <= 65535:",
    ['C11', 'C04'], 'ladder boundary -32768 -> -32767 (value still round-trips)')
mut('c03-array-len-off', E, "        data.append(encode_table_value(item))\n    output = b''.join(data)\n    return common.Struct.integer.pack(len(output)) + output",
    "        data.append(encode_table_value(item))\n    output = b''.join(data)\n    return common.Struct.integer.pack(len(output) + (len(output) > 300)) + output",
    ['C03', 'C04'], 'array length prefix off by one for long arrays')
mut('c03-drop-tz', D, "        return 8, datetime.datetime.fromtimestamp(ts_value,\n                                                  tz=datetime.timezone.utc)",
    "        return 8, datetime.datetime.utcfromtimestamp(ts_value)", ['C03', 'C15', 'C05'],
    'decoded timestamps naive')
mut('c03-table-end-plus-one', D, "        return field_table_end, data", "        return field_table_end + (len(data) > 4), data",
    ['C03', 'C01'], 'field_table reports one byte too many for big tables')
# ---- C04 (symmetric)
mut('c04-ushort-le', 'pamqp/common.py', "    ushort = struct.Struct('>H')", "    ushort = struct.Struct('<H')",
    ['C04', 'C05'], 'little-endian unsigned short in both directions')
mut('c04-bits-msb', E, "    return byte | (value << position)", "    return byte | (value << (7 - position))",
    ['C04', 'C05'], 'bits packed MSB first (encoder); decoder mutated too', count=1)
mut('c04-frame-end', 'pamqp/constants.py', "FRAME_END = 206", "FRAME_END = 207", ['C04', 'C17'],
    'frame end constant changed (FRAME_END_CHAR also below)')
mut('c04-publish-swap', C, "            'ticket', 'exchange', 'routing_key', 'mandatory', 'immediate'\n",
    "            'ticket', 'exchange', 'routing_key', 'immediate', 'mandatory'\n",
    ['C04', 'C14', 'C19', 'C05'], 'Basic.Publish mandatory/immediate swapped in __slots__')
mut('c04-remove-sorted', E, "    for key, value in sorted(value.items()):", "    for key, value in value.items():",
    ['C04', 'C12'], 'table keys not sorted')
# ---- C05
mut('c05-B-signed', D, "    b'B': short_short_uint,", "    b'B': short_short_int,", ['C05'],
    'tag B decoded signed')
mut('c05-drop-null-tag', D, "    b'\\x00': void,  # While not documented, have seen this in the wild\n", "",
    ['C05'], 'delete the 0x00 void entry')
mut('c05-ms-threshold', D, "        if ts_value > 0xFFFFFFFF:", "        if ts_value >= 0xFFFFFFFF:", ['C05', 'C03', 'C02'],
    'millisecond threshold off by one')
mut('c05-no-bytes-fallback', D, "    except UnicodeDecodeError:\n        return length + 4, value[4:length + 4]",
    "    except UnicodeDecodeError:\n        raise", ['C05'], 'remove the bytes fallback of long_str')
mut('c05-validate-on-receive', B, "            if consumed:\n                data = data[consumed:]",
    "            if consumed:\n                data = data[consumed:]\n        self.validate()",
    ['C05', 'C13'], 'validate() at the end of Frame.unmarshal')
mut('c05-double-as-float', D, "        return 8, common.Struct.double.unpack_from(value)[0]",
    "        return 8, float(common.Struct.float.pack(common.Struct.double.unpack_from(value)[0]) and common.Struct.float.unpack(common.Struct.float.pack(common.Struct.double.unpack_from(value)[0]))[0]) if abs(common.Struct.double.unpack_from(value)[0]) < 1e38 else common.Struct.double.unpack_from(value)[0]",
    ['C05'], 'double decoded through single precision')
# ---- C06
mut('c06-consumed-7', F, "    byte_count = constants.FRAME_HEADER_SIZE + frame_size + 1\n",
    "    byte_count = constants.FRAME_HEADER_SIZE + frame_size + 1\n    reported = byte_count - 1\n",
    ['C06', 'C01'], 'helper for next mutant', count=1)
mut('c06-proto-len', F, "            return 8, 0, value", "            return len(data_in), 0, value", ['C06', 'C18'],
    'protocol header consumes the whole buffer')
mut('c06-body-includes-end', F, "    frame_data = data_in[constants.FRAME_HEADER_SIZE:byte_count - 1]",
    "    frame_data = data_in[constants.FRAME_HEADER_SIZE:byte_count - 1 + (frame_type == 3 and len(data_in) > byte_count)]",
    ['C06'], 'body payload includes a byte of what follows the frame')
# ---- C07
mut('c07-off-by-one', F, "    if byte_count > len(data_in):", "    if byte_count - 1 > len(data_in):", ['C07'],
    'accept a frame whose end octet has not arrived')
mut('c07-proto-valueerror', F, "    except ValueError as error:\n        raise exceptions.UnmarshalingException(header.ProtocolHeader, error)",
    "    except ValueError as error:\n        raise", ['C07', 'C09'], 'protocol header ValueError escapes')
mut('c07-heartbeat-shortcut', F, "        if len(data_in) <= constants.FRAME_HEADER_SIZE:\n            raise exceptions.UnmarshalingException('Heartbeat',\n                                                   'Not all data received')\n",
    "", ['C07'], 'heartbeat returned before the 8th byte arrived')
mut('c07-return-failure', F, "    if not frame_size:\n        raise exceptions.UnmarshalingException('Unknown', 'No frame size')",
    "    if not frame_size:\n        return UNMARSHAL_FAILURE", ['C07', 'C06'], 'return a failure tuple instead of raising')
# ---- C08
mut('c08-array-no-progress', D, "        if field_array_end > len(value):\n            raise ValueError('Field array length exceeds the available data')\n",
    "", ['C08'], 'reintroduce F5a (array)')
mut('c08-flags-no-advance', H, "            consumed, partial_flags = decode.short_int(\n                data[bytes_consumed:])",
    "            consumed, partial_flags = decode.short_int(data)", ['C08', 'C05'], 'reintroduce F5b')
mut('c08-quadratic', D, "            consumed, result = embedded_value(value[offset:])\n            offset += consumed\n            data.append(result)",
    "            consumed, result = embedded_value(value[offset:])\n            offset += consumed\n            data.append(result)\n            for _ in range(len(data)):\n                pass",
    ['C08'], 'quadratic work per array element')
mut('c08-prealloc', D, "        length = common.Struct.integer.unpack(value[0:4])[0]\n        return length + 4, bytearray(value[4:length + 4])",
    "        length = common.Struct.integer.unpack(value[0:4])[0]\n        scratch = bytearray(length)\n        return length + 4, bytearray(value[4:length + 4])",
    ['C08'], 'allocation driven by the declared length')
mut('c08-table-overrun', D, "            if offset > field_table_end:\n                raise ValueError(\n                    'Field table entry exceeds the declared table length')\n",
    "", ['C08'], 'reintroduce F8 (exponential re-decode of bytes after a short table)')
# ---- C09
mut('c09-drop-except', F, "        method.unmarshal(frame_data[bytes_used:])\n    except (struct.error, ValueError, OverflowError) as error:",
    "        method.unmarshal(frame_data[bytes_used:])\n    except (ValueError, OverflowError) as error:", ['C09'],
    'struct.error escapes from method decoding')
mut('c09-keyerror-type', F, "    raise exceptions.UnmarshalingException(\n        'Unknown', 'Unknown frame type: {}'.format(frame_type))",
    "    raise KeyError(frame_type)", ['C09'], 'KeyError for unknown frame type')
mut('c09-header-valueerror', F, "        content_header.unmarshal(frame_data)\n    except (struct.error, ValueError, OverflowError) as error:",
    "        content_header.unmarshal(frame_data)\n    except (struct.error, OverflowError) as error:", ['C09'],
    'ValueError escapes from header decoding')
# ---- C10
mut('c10-octet-mask', E, "    return common.Struct.byte.pack(value)", "    return common.Struct.byte.pack(value & 0xFF)", ['C10'],
    'octet wraps around')
mut('c10-string-truncate', E, "    temp = value.encode('utf-8')\n    return encoder.pack(len(temp)) + temp",
    "    temp = value.encode('utf-8')\n    if encoder.size == 1:\n        temp = temp[:255]\n    return encoder.pack(len(temp)) + temp",
    ['C10'], 'short strings silently truncated')
mut('c10-timestamp-abs', E, "        return common.Struct.timestamp.pack(int(value.timestamp()))",
    "        return common.Struct.timestamp.pack(abs(int(value.timestamp())))", ['C10'], 'pre-epoch sign dropped')
mut('c10-long-signed', E, "    elif not (0 <= value <= 4294967295):\n        raise TypeError('Long unsigned-integer range: 0 to 4294967295')\n    return common.Struct.ulong.pack(value)",
    "    elif not (-2147483648 <= value <= 4294967295):\n        raise TypeError('Long unsigned-integer range: 0 to 4294967295')\n    return common.Struct.ulong.pack(value & 0xFFFFFFFF)",
    ['C10', 'C11'], 'long_uint accepts negative values')
mut('c10-bit-any', E, "    if not isinstance(value, int) or value not in (0, 1):\n        raise TypeError('bool required, received {!r}'.format(value))\n",
    "", ['C10'], 'reintroduce F7')
mut('c10-decimal-scale-mod', E, "        return struct.pack('>Bi', decimals, raw)", "        return struct.pack('>Bi', decimals % 256, raw)",
    ['C10'], 'decimal scale wraps at 256')
# ---- C11
mut('c11-legacy-u', E, "    if -128 <= value <= 127:\n        return b'b' + common.Struct.short_short_int.pack(value)\n    elif -32768 <= value <= 32767:\n        return b's' + short_int(value)\n    elif -2147483648 <= value <= 2147483647:",
    "    if -128 <= value <= 127:\n        return b'b' + common.Struct.short_short_int.pack(value)\n    elif -32768 <= value <= 32767:\n        return b's' + short_int(value)\n    elif 0 <= value <= 65535:\n        return b'u' + short_uint(value)\n    elif -2147483648 <= value <= 2147483647:",
    ['C11'], 'legacy chain emits u')
mut('c11-default-flag', E, "def support_deprecated_rabbitmq(enabled: bool = True) -> None:",
    "def support_deprecated_rabbitmq(enabled: bool = False) -> None:", ['C11'], 'argument-less call switches off')
mut('c11-toggle-ignores', E, "    DEPRECATED_RABBITMQ_SUPPORT = enabled", "    DEPRECATED_RABBITMQ_SUPPORT = True", ['C11', 'C16'],
    'toggle ignores its argument')
mut('c11-127-128', E, "    if DEPRECATED_RABBITMQ_SUPPORT:\n        return _deprecated_table_integer(value)\n    if -128 <= value <= 127:",
    "    if DEPRECATED_RABBITMQ_SUPPORT:\n        return _deprecated_table_integer(value)\n    if -128 <= value <= 126:", ['C11', 'C04'],
    'b rung stops at 126')
mut('c11-i-upper', E, "    elif 0 <= value <= 4294967295:\n        return b'i' + long_uint(value)", "    elif 0 <= value <= 4294967294:\n        return b'i' + long_uint(value)",
    ['C11', 'C04'], 'i rung stops one early')
mut('c11-short-uint-range', E, "    elif not (0 <= value <= 65535):", "    elif not (0 <= value <= 65536):", ['C11', 'C10'],
    'short_uint accepts 65536 (struct.error instead of TypeError)')
# ---- C12
mut('c12-sort-top-only', E, "    for key, value in sorted(value.items()):", "    for key, value in (sorted(value.items()) if len(value) != 3 else value.items()):",
    ['C12', 'C04'], '3-key tables not sorted')
mut('c12-list-sort', E, "    data = []\n    for item in value:\n        data.append(encode_table_value(item))",
    "    data = []\n    if len(value) > 1 and all(isinstance(i, str) for i in value):\n        value.sort()\n    for item in value:\n        data.append(encode_table_value(item))",
    ['C12', 'C03'], 'sorts an input list of strings in place')
mut('c12-marshal-mutates', B, "        self.validate()\n        byte, offset, output, processing_bitset = -1, 0, [], False",
    "        self.validate()\n        if hasattr(self, 'arguments') and not self.arguments:\n            self.arguments = {}\n        byte, offset, output, processing_bitset = -1, 0, [], False",
    ['C12'], 'marshal replaces an empty arguments table')
# ---- C13
mut('c13-regex-hash', 'pamqp/constants.py', "    'exchange-name': re.compile(r'^[a-zA-Z0-9-_.:@#,/ ]*$'),", "    'exchange-name': re.compile(r'^[a-zA-Z0-9-_.:@,/ ]*$'),",
    ['C13'], "remove '#' from the exchange-name alphabet")
mut('c13-regex-w', 'pamqp/constants.py', "    'queue-name': re.compile(r'^[a-zA-Z0-9-_.:@#,/ ]*$')", "    'queue-name': re.compile(r'^[\\w\\-.:@#,/ ]*$')",
    ['C13'], 'Unicode word characters accepted in queue names')
mut('c13-127-128', C, "            if self.virtual_host is not None and len(self.virtual_host) > 127:",
    "            if self.virtual_host is not None and len(self.virtual_host) > 128:", ['C13'], 'vhost limit 128')
mut('c13-no-validate-marshal', B, "        self.validate()\n        byte, offset, output, processing_bitset = -1, 0, [], False",
    "        byte, offset, output, processing_bitset = -1, 0, [], False", ['C13'], 'marshal does not validate')
mut('c13-delivery-mode-0', B, "        if self.delivery_mode is not None and self.delivery_mode not in [1, 2]:",
    "        if self.delivery_mode is not None and self.delivery_mode not in [0, 1, 2]:", ['C13'], 'delivery mode 0 accepted')
mut('c13-insist', C, "            if self.insist is not None and self.insist is not False:\n                raise ValueError('insist must be False')\n",
    "", ['C13'], 'insist check removed')
# ---- C14 / C17 / C19
mut('c14-synchronous', C, "        name = 'Basic.Recover'\n        synchronous = True", "        name = 'Basic.Recover'\n        synchronous = False", ['C14'], '')
mut('c14-default', C, "                     virtual_host: str = '/',", "                     virtual_host: str = '',", ['C14'], 'constructor default differs')
mut('c14-doc-default', C, "        :param mechanisms: Available security mechanisms\n            - Default: ``PLAIN``", "        :param mechanisms: Available security mechanisms\n            - Default: ``AMQPLAIN``", ['C14'], 'docstring default differs')
mut('c14-valid-responses', C, "        valid_responses = ['Basic.GetOk', 'Basic.GetEmpty']", "        valid_responses = ['Basic.GetOk']", ['C14'], '')
mut('c17-code-name', 'pamqp/exceptions.py', "    name = 'NOT-ALLOWED'", "    name = 'NOT_ALLOWED'", ['C17'], '')
mut('c17-base', 'pamqp/exceptions.py', "class AMQPResourceLocked(AMQPSoftError):", "class AMQPResourceLocked(AMQPHardError):", ['C17'], '')
mut('c17-min-size', 'pamqp/constants.py', "FRAME_MIN_SIZE = 4096", "FRAME_MIN_SIZE = 4069", ['C17'], '')
mut('c19-iter-sorted', B, "        for attribute in self.__slots__:\n            yield attribute, getattr(self, attribute)", "        for attribute in sorted(self.__slots__):\n            yield attribute, getattr(self, attribute)", ['C19'], '')
mut('c19-len-annotations', B, "        return len(self.__slots__)", "        return len(self.__annotations__) or len(self.__slots__) + 1", ['C19'], '')
mut('c19-contains-dir', B, "        return item in self.__slots__", "        return item in dir(self)", ['C19'], '')
mut('c19-getitem-type', B, "        return getattr(self, item)", "        return getattr(self, item) if not isinstance(getattr(self, item), list) else list(getattr(self, item))", ['C19'], 'getitem copies lists')
# ---- C15
mut('c15-mktime', E, "        return common.Struct.timestamp.pack(calendar.timegm(value))", "        return common.Struct.timestamp.pack(int(time.mktime(value)))", ['C15'], 'struct_time read as local time')
mut('c15-naive-local', E, "            value = value.replace(tzinfo=datetime.timezone.utc)", "            value = value.astimezone()", ['C15', 'C03'], 'naive datetime read as local time')
mut('c15-decode-local', D, "        return 8, datetime.datetime.fromtimestamp(ts_value,\n                                                  tz=datetime.timezone.utc)",
    "        return 8, datetime.datetime.fromtimestamp(ts_value).replace(\n            tzinfo=datetime.timezone.utc)", ['C15'], 'decode through local time then label UTC')
# ---- C16
mut('c16-cached-props', H, "        self.properties = properties or commands.Basic.Properties()", "        self.properties = properties or _DEFAULT_PROPS", ['C16'], 'module-level cached Basic.Properties', count=1)
mut('c16-cache-last-frame', F, "        method = commands.INDEX_MAPPING[method_index]()", "        method = _CACHE.setdefault(method_index, commands.INDEX_MAPPING[method_index]())", ['C16'], 'unmarshal reuses one object per index')
mut('c16-scratch-list', B, "        byte, offset, output, processing_bitset = -1, 0, [], False", "        byte, offset, output, processing_bitset = -1, 0, _SCRATCH, False\n        del _SCRATCH[:]", ['C16'], 'module-level scratch list in Frame.marshal (race only)')
# ---- C18 / C20
mut('c18-len-plus', 'pamqp/body.py', "        return len(self.value) if self.value else 0", "        return len(self.value) + (len(self.value) > 70000) if self.value else 0", ['C18'], 'len wrong for big bodies')
mut('c18-version-slice', H, "             self.revision) = struct.unpack('BBB', data[5:8])", "             self.revision) = struct.unpack('BBB', data[4:7])", ['C18', 'C05'], 'version read from the wrong offset')
mut('c18-heartbeat-type-only', F, "    if frame_type == constants.FRAME_HEARTBEAT and frame_size == 0:", "    if frame_type == constants.FRAME_HEARTBEAT:", ['C06', 'C20', 'C09'], 'heartbeat detected by type only')
mut('c20-signed-size', F, "        return struct.unpack('>BHI', data[0:constants.FRAME_HEADER_SIZE])", "        return struct.unpack('>BHi', data[0:constants.FRAME_HEADER_SIZE])", ['C20'], 'signed size')
mut('c20-signed-type', F, "        return struct.unpack('>BHI', data[0:constants.FRAME_HEADER_SIZE])", "        return struct.unpack('>bHI', data[0:constants.FRAME_HEADER_SIZE])", ['C20'], 'signed type octet')
mut('c20-failure-zero', F, "UNMARSHAL_FAILURE = 0, 0, None", "UNMARSHAL_FAILURE = 0, 0, 0", ['C20'], 'failure triple (0,0,0)')
mut('c20-raise', F, "    except struct.error:  # Did not receive a full frame\n        return UNMARSHAL_FAILURE", "    except struct.error:  # Did not receive a full frame\n        raise", ['C20', 'C07'], 'peek raises on short input')

# companion edits applied together with a primary mutant (same id -> applied too)
COMPANIONS = {
    'c04-bits-msb': [(D, "        return 0, (bit_buffer & (1 << position)) != 0",
                      "        return 0, (bit_buffer & (1 << (7 - position))) != 0")],
    'c04-frame-end': [('pamqp/constants.py', "FRAME_END_CHAR = b'\\xce'", "FRAME_END_CHAR = b'\\xcf'")],
    'c06-consumed-7': [(F, "        return byte_count, channel_id, _unmarshal_body_frame(frame_data)",
                        "        return reported, channel_id, _unmarshal_body_frame(frame_data)")],
    'c16-cached-props': [(H, "BasicProperties = typing.Optional[commands.Basic.Properties]",
                          "BasicProperties = typing.Optional[commands.Basic.Properties]\n_DEFAULT_PROPS = commands.Basic.Properties()")],
    'c16-cache-last-frame': [(F, "UNMARSHAL_FAILURE = 0, 0, None", "UNMARSHAL_FAILURE = 0, 0, None\n_CACHE: dict = {}")],
    'c16-scratch-list': [(B, "LOGGER = logging.getLogger(__name__)", "LOGGER = logging.getLogger(__name__)\n_SCRATCH: list = []")],
}


def apply(root, file, old, new):
    p = os.path.join(root, file)
    s = open(p).read()
    if s.count(old) < 1:
        raise SystemExit('mutant text not found in %s: %r' % (file, old[:60]))
    open(p, 'w').write(s.replace(old, new, 1))


def run(cmd, cwd, env=None, timeout=3600):
    t = time.time()
    try:
        p = subprocess.run(cmd, cwd=cwd, env=env, capture_output=True, text=True,
                           timeout=timeout)
        return p.returncode, p.stdout + p.stderr, time.time() - t
    except subprocess.TimeoutExpired as e:
        return 124, 'TIMEOUT ' + str(e), time.time() - t


def main():
    ap = argparse.ArgumentParser()
    ap.add_argument('--only')
    ap.add_argument('--props')
    ap.add_argument('--out', default=os.path.join(VERIF, 'sensitivity', 'results.json'))
    ap.add_argument('--list', action='store_true')
    a = ap.parse_args()
    only = set(a.only.split(',')) if a.only else None
    results = []
    os.makedirs(os.path.dirname(a.out), exist_ok=True)
    for m in M:
        if only and m['id'] not in only:
            continue
        if a.list:
            print(m['id'], m['props'], m['note'])
            continue
        root = os.path.join(SCRATCH, m['id'])
        shutil.rmtree(root, ignore_errors=True)
        os.makedirs(root)
        shutil.copytree(os.path.join(REPO, 'pamqp'), os.path.join(root, 'pamqp'))
        shutil.copytree(os.path.join(REPO, 'tests'), os.path.join(root, 'tests'))
        for f in ('setup.cfg',):
            if os.path.exists(os.path.join(REPO, f)):
                shutil.copy(os.path.join(REPO, f), root)
        apply(root, m['file'], m['old'], m['new'])
        for f, old, new in COMPANIONS.get(m['id'], []):
            apply(root, f, old, new)
        env = dict(os.environ, PYTHONPATH=root, PYTHONDONTWRITEBYTECODE='1')
        rc, out, dt = run(['/venv/bin/python', '-m', 'pytest', '-q', '-x',
                           '-p', 'no:cacheprovider', 'tests'], root, env, 600)
        tests_pass = rc == 0
        rec = {'id': m['id'], 'note': m['note'], 'file': m['file'],
               'tests_pass': tests_pass, 'checks': {}}
        props = m['props']
        if a.props:
            props = [p for p in props if p in a.props.split(',')]
        for p in props:
            env2 = dict(os.environ, PAMQP_REPO=root, VERIF_TASK_TIMEOUT='600')
            rc, out, dt = run([os.path.join(VERIF, 'check'), p, '--tier', 'quick',
                               '--no-evidence'], VERIF, env2, 1800)
            buckets = sorted({l.split('bucket=')[1].split()[0]
                              for l in out.splitlines() if 'bucket=' in l})
            rec['checks'][p] = {'exit': rc, 'seconds': round(dt, 1),
                                'buckets': buckets[:6]}
        caught = [p for p, r in rec['checks'].items() if r['exit'] == 1]
        rec['caught_by'] = caught
        rec['verdict'] = ('caught' if caught else 'MISSED') if tests_pass else \
            ('caught (tests also fail)' if caught else 'tests fail; not caught')
        results.append(rec)
        print('%-28s tests=%s %s' % (m['id'], 'pass' if tests_pass else 'FAIL',
                                     {p: r['exit'] for p, r in rec['checks'].items()}),
              flush=True)
        shutil.rmtree(root, ignore_errors=True)
        for f in os.listdir(os.path.join(VERIF, 'replays')):
            if f.endswith('.json'):
                os.unlink(os.path.join(VERIF, 'replays', f))
        with open(a.out, 'w') as f:
            json.dump(results, f, indent=1)
    shutil.rmtree(SCRATCH, ignore_errors=True)


if __name__ == '__main__':
    main()
