#!/venv/bin/python
"""Systematic first-order mutation of the library source (complement of the hand-written
mutants in tools/sensitivity.py and of the independently seeded changes).

Every mutant is one AST-level edit (comparison / arithmetic / boolean operator swap, integer
constant +-1, True<->False, dropped `not`, statement removed, struct format signedness
flipped) applied to a scratch copy of /repo outside /repo and /verif.

phase 1 (--phase tests):  run the repository's test suite on every mutant (in parallel);
                          the survivors are the mutants the tests cannot see.
phase 2 (--phase checks): run the checks that own the mutated file, fastest first, through
                          PAMQP_REPO, stopping at the first that reports a VIOLATION.

usage: tools/automutate.py --phase tests  [--files encode.py,...] --out sensitivity/auto_tests.json
       tools/automutate.py --phase checks --in sensitivity/auto_tests.json [--sample N]
                           --out sensitivity/auto_checks.json
"""
import argparse
import ast
import copy
import difflib
import hashlib
import json
import multiprocessing
import os
import shutil
import subprocess
import sys
import time

VERIF = os.path.dirname(os.path.dirname(os.path.abspath(__file__)))
REPO = os.environ.get('AUTOMUTATE_REPO', '/repo')
SCRATCH = '/tmp/verif-automut'

FILES = ['encode.py', 'decode.py', 'frame.py', 'base.py', 'header.py', 'body.py',
         'heartbeat.py', 'common.py', 'exceptions.py', 'constants.py', 'commands.py']

CHECKS_FOR = {
    'encode.py': ['C11', 'C03', 'C12', 'C15', 'C10', 'C04', 'C16', 'C02', 'C01'],
    'decode.py': ['C03', 'C15', 'C05', 'C09', 'C08', 'C06', 'C02', 'C01'],
    'frame.py': ['C18', 'C20', 'C07', 'C06', 'C09', 'C04', 'C01', 'C08'],
    'base.py': ['C19', 'C13', 'C01', 'C02', 'C04', 'C05', 'C12'],
    'header.py': ['C18', 'C02', 'C07', 'C09', 'C05', 'C06', 'C08', 'C16'],
    'body.py': ['C18', 'C04', 'C20', 'C16'],
    'heartbeat.py': ['C18', 'C04', 'C20', 'C16'],
    'common.py': ['C03', 'C18', 'C04', 'C05', 'C02'],
    'exceptions.py': ['C17', 'C09', 'C07'],
    'constants.py': ['C17', 'C13', 'C18', 'C07', 'C04'],
    'commands.py': ['C14', 'C13', 'C19', 'C01', 'C04', 'C02', 'C16'],
}

CMP = {ast.Lt: [ast.LtE], ast.LtE: [ast.Lt], ast.Gt: [ast.GtE], ast.GtE: [ast.Gt],
       ast.Eq: [ast.NotEq], ast.NotEq: [ast.Eq], ast.Is: [ast.IsNot],
       ast.IsNot: [ast.Is], ast.In: [ast.NotIn], ast.NotIn: [ast.In]}
BIN = {ast.Add: [ast.Sub], ast.Sub: [ast.Add], ast.Mult: [ast.FloorDiv],
       ast.FloorDiv: [ast.Mult], ast.Div: [ast.Mult], ast.Mod: [ast.FloorDiv],
       ast.LShift: [ast.RShift], ast.RShift: [ast.LShift], ast.BitAnd: [ast.BitOr],
       ast.BitOr: [ast.BitAnd], ast.Pow: [ast.Mult]}
FLIP = str.maketrans('bBhHiIlLqQ', 'BbHhIiLlQq')


def docstring_nodes(tree):
    out = set()
    for node in ast.walk(tree):
        if isinstance(node, (ast.Module, ast.ClassDef, ast.FunctionDef)) and node.body:
            first = node.body[0]
            if isinstance(first, ast.Expr) and isinstance(first.value, ast.Constant) \
                    and isinstance(first.value.value, str):
                out.add(id(first))
                out.add(id(first.value))
    return out


def skip_subtrees(tree):
    """nodes inside annotations, logging calls, warnings, exception messages"""
    out = set()

    def mark(n):
        for x in ast.walk(n):
            out.add(id(x))
    for node in ast.walk(tree):
        if isinstance(node, ast.AnnAssign):
            mark(node.annotation)
        if isinstance(node, (ast.FunctionDef,)):
            if node.returns:
                mark(node.returns)
            for a in node.args.args + node.args.kwonlyargs:
                if a.annotation:
                    mark(a.annotation)
        if isinstance(node, ast.Call):
            f = node.func
            name = ast.unparse(f)
            if name.startswith(('LOGGER.', 'warnings.', 'logging.')):
                mark(node)
        if isinstance(node, ast.Raise) and node.exc is not None and \
                isinstance(node.exc, ast.Call):
            for a in node.exc.args:
                mark(a)
    return out


def enumerate_mutants(path):
    src = open(path).read()
    tree = ast.parse(src)
    docs = docstring_nodes(tree)
    skip = skip_subtrees(tree)
    nodes = list(ast.walk(tree))
    index = {id(n): i for i, n in enumerate(nodes)}
    sites = []     # (node index, operator name, detail)
    for n in nodes:
        if id(n) in docs or id(n) in skip:
            continue
        i = index[id(n)]
        line = getattr(n, 'lineno', 0)
        if isinstance(n, ast.Compare):
            for k, op in enumerate(n.ops):
                for new in CMP.get(type(op), []):
                    sites.append((i, 'cmp', (k, new.__name__), line))
        elif isinstance(n, ast.BinOp):
            for new in BIN.get(type(n.op), []):
                sites.append((i, 'bin', new.__name__, line))
        elif isinstance(n, ast.BoolOp):
            sites.append((i, 'bool', 'Or' if isinstance(n.op, ast.And) else 'And', line))
        elif isinstance(n, ast.UnaryOp) and isinstance(n.op, ast.Not):
            sites.append((i, 'dropnot', '', line))
        elif isinstance(n, ast.Constant):
            v = n.value
            if isinstance(v, bool):
                sites.append((i, 'const', not v, line))
            elif isinstance(v, int):
                sites.append((i, 'const', v + 1, line))
                sites.append((i, 'const', v - 1, line))
            elif isinstance(v, str) and os.path.basename(path) == 'common.py' and \
                    v.startswith(('>', 'B', 'b')) and len(v) <= 4 and \
                    v.translate(FLIP) != v:
                sites.append((i, 'const', v.translate(FLIP), line))
        elif isinstance(n, (ast.Assign, ast.AugAssign, ast.Expr, ast.Raise)) and \
                not isinstance(getattr(n, 'value', None), ast.Constant):
            sites.append((i, 'delete', '', line))
        elif isinstance(n, ast.Return) and n.value is not None:
            pass
        elif isinstance(n, ast.If):
            sites.append((i, 'if-true', '', line))
            sites.append((i, 'if-false', '', line))
    return src, tree, sites


def apply_site(tree, site):
    t = copy.deepcopy(tree)
    nodes = list(ast.walk(t))
    i, kind, detail, line = site
    n = nodes[i]
    if kind == 'cmp':
        k, new = detail
        n.ops[k] = getattr(ast, new)()
    elif kind == 'bin':
        n.op = getattr(ast, detail)()
    elif kind == 'bool':
        n.op = getattr(ast, detail)()
    elif kind == 'dropnot':
        _replace(t, n, n.operand)
    elif kind == 'const':
        n.value = detail
    elif kind == 'delete':
        _replace(t, n, ast.Pass())
    elif kind == 'if-true':
        n.test = ast.Constant(True)
    elif kind == 'if-false':
        n.test = ast.Constant(False)
    ast.fix_missing_locations(t)
    return ast.unparse(t) + '\n'


def _replace(tree, old, new):
    for parent in ast.walk(tree):
        for field, value in ast.iter_fields(parent):
            if value is old:
                setattr(parent, field, new)
                return
            if isinstance(value, list):
                for k, x in enumerate(value):
                    if x is old:
                        value[k] = new
                        return


def all_mutants(files):
    out = []
    for f in files:
        path = os.path.join(REPO, 'pamqp', f)
        src, tree, sites = enumerate_mutants(path)
        base = ast.unparse(tree) + '\n'
        seen = {base}
        for site in sites:
            try:
                new = apply_site(tree, site)
                compile(new, f, 'exec')
            except Exception:
                continue
            if new in seen:
                continue
            seen.add(new)
            diff = [l for l in difflib.unified_diff(base.splitlines(), new.splitlines(),
                                                    lineterm='', n=0)
                    if l[:1] in '+-' and l[:3] not in ('+++', '---')]
            mid = '%s:%d:%s:%s' % (f, site[3], site[1],
                                   hashlib.blake2b(new.encode(),
                                                   digest_size=4).hexdigest())
            out.append({'id': mid, 'file': f, 'line': site[3], 'op': site[1],
                        'diff': diff[:6], 'source': new})
    return out


def make_root(m):
    root = os.path.join(SCRATCH, hashlib.blake2b(m['id'].encode(),
                                                 digest_size=6).hexdigest())
    shutil.rmtree(root, ignore_errors=True)
    os.makedirs(root)
    shutil.copytree(os.path.join(REPO, 'pamqp'), os.path.join(root, 'pamqp'))
    shutil.copytree(os.path.join(REPO, 'tests'), os.path.join(root, 'tests'))
    for f in ('setup.cfg',):
        if os.path.exists(os.path.join(REPO, f)):
            shutil.copy(os.path.join(REPO, f), root)
    open(os.path.join(root, 'pamqp', m['file']), 'w').write(m['source'])
    return root


def run_tests(m):
    root = make_root(m)
    env = dict(os.environ, PYTHONPATH=root, PYTHONDONTWRITEBYTECODE='1')
    t = time.time()
    try:
        p = subprocess.run(['/venv/bin/python', '-m', 'pytest', '-q', '-x', '-p',
                            'no:cacheprovider', 'tests'], cwd=root, env=env,
                           capture_output=True, text=True, timeout=300)
        rc = p.returncode
    except subprocess.TimeoutExpired:
        rc = 124
    shutil.rmtree(root, ignore_errors=True)
    return {'id': m['id'], 'tests_exit': rc, 'seconds': round(time.time() - t, 1)}


def run_checks(m, tier='quick'):
    root = make_root(m)
    rec = {'id': m['id'], 'file': m['file'], 'line': m['line'], 'op': m['op'],
           'diff': m['diff'], 'checks': {}}
    for p in CHECKS_FOR[m['file']]:
        env = dict(os.environ, PAMQP_REPO=root, VERIF_TASK_TIMEOUT='600')
        t = time.time()
        try:
            q = subprocess.run([os.path.join(VERIF, 'check'), p, '--tier', tier,
                                '--no-evidence'], cwd=VERIF, env=env,
                               capture_output=True, text=True, timeout=2400)
            rc, out = q.returncode, q.stdout + q.stderr
        except subprocess.TimeoutExpired:
            rc, out = 124, ''
        buckets = sorted({l.split('bucket=')[1].split()[0]
                          for l in out.splitlines() if 'bucket=' in l})
        rec['checks'][p] = {'exit': rc, 'seconds': round(time.time() - t, 1),
                            'buckets': buckets[:4]}
        for f in os.listdir(os.path.join(VERIF, 'replays')):
            if f.endswith('.json'):
                os.unlink(os.path.join(VERIF, 'replays', f))
        if rc == 1:
            break
    rec['caught_by'] = [p for p, r in rec['checks'].items() if r['exit'] == 1]
    rec['verdict'] = 'caught' if rec['caught_by'] else 'not caught'
    shutil.rmtree(root, ignore_errors=True)
    return rec


def main():
    ap = argparse.ArgumentParser()
    ap.add_argument('--phase', required=True, choices=['list', 'tests', 'checks'])
    ap.add_argument('--files', default=','.join(FILES))
    ap.add_argument('--in', dest='inp')
    ap.add_argument('--out')
    ap.add_argument('--sample', type=int, default=0)
    ap.add_argument('--jobs', type=int, default=12)
    ap.add_argument('--max-per-file', type=int, default=0)
    ap.add_argument('--ids', help='comma separated id prefixes (phase checks)')
    ap.add_argument('--checks', help='override the check list, e.g. C05,C18')
    a = ap.parse_args()
    files = a.files.split(',')
    if a.phase in ('list', 'tests'):
        muts = all_mutants(files)
        if a.max_per_file:
            by = {}
            for m in muts:
                by.setdefault(m['file'], []).append(m)
            muts = []
            for f, ms in by.items():
                ms.sort(key=lambda m: hashlib.blake2b(m['id'].encode(),
                                                      digest_size=8).hexdigest())
                muts += ms[:a.max_per_file]
        print('%d mutants' % len(muts), {f: sum(1 for m in muts if m['file'] == f)
                                         for f in files}, flush=True)
        if a.phase == 'list':
            for m in muts:
                print(m['id'], m['diff'][:2])
            return
        os.makedirs(SCRATCH, exist_ok=True)
        with multiprocessing.Pool(a.jobs) as pool:
            res = pool.map(run_tests, muts, chunksize=1)
        byid = {r['id']: r for r in res}
        survivors = [dict({k: v for k, v in m.items() if k != 'source'},
                          **byid[m['id']]) for m in muts
                     if byid[m['id']]['tests_exit'] == 0]
        summary = {'mutants': len(muts), 'killed_by_tests': len(muts) - len(survivors),
                   'survivors': len(survivors)}
        print(summary, flush=True)
        with open(a.out, 'w') as f:
            json.dump({'summary': summary, 'survivors': survivors}, f, indent=1)
        shutil.rmtree(SCRATCH, ignore_errors=True)
        return
    data = json.load(open(a.inp))
    survivors = [m for m in data['survivors'] if m['file'] in files]
    if a.ids:
        survivors = [m for m in survivors
                     if any(m['id'].startswith(p) for p in a.ids.split(','))]
    if a.checks:
        for f in CHECKS_FOR:
            CHECKS_FOR[f] = a.checks.split(',')
    if a.sample:
        # at most --sample survivors per file, chosen by the hash of their id
        by = {}
        for m in sorted(survivors, key=lambda m: hashlib.blake2b(
                m['id'].encode(), digest_size=8).hexdigest()):
            if len(by.setdefault(m['file'], [])) < a.sample:
                by[m['file']].append(m)
        survivors = [m for f in files for m in by.get(f, [])]
    sources = {m['id']: m['source']
               for m in all_mutants(sorted({m['file'] for m in survivors}))}
    for m in survivors:
        m['source'] = sources[m['id']]
    results = []
    if a.out and os.path.exists(a.out):
        results = json.load(open(a.out))['results']
    done = {r['id'] for r in results}
    os.makedirs(SCRATCH, exist_ok=True)
    for m in survivors:
        if m['id'] in done:
            continue
        rec = run_checks(m)
        results.append(rec)
        print('%-44s %-10s %s  %s' % (rec['id'], rec['verdict'],
                                     {p: r['exit'] for p, r in rec['checks'].items()},
                                     ' | '.join(rec['diff'][:2])[:110]), flush=True)
        with open(a.out, 'w') as f:
            json.dump({'results': results}, f, indent=1)
    shutil.rmtree(SCRATCH, ignore_errors=True)


if __name__ == '__main__':
    main()
