#!/venv/bin/python
"""Copy the hand-written byte fixtures of the repository's tests into corpus/fixtures.json.

Parsed with ast (the tests are not executed): for every test in
tests/test_frame_unmarshaling.py the `frame_data` bytes literal, the `expectation` dict
literal and the expected frame name.  These fixtures are an authority that is neither
the harness author's memory nor the library code; the reference codec is calibrated
against them (pbt.props.c04.selftest).
"""
import ast, datetime, json, os, sys
VERIF = os.path.dirname(os.path.dirname(os.path.abspath(__file__)))
sys.path.insert(0, VERIF)
from pbt import canon, refcodec

src = open('/repo/tests/test_frame_unmarshaling.py').read()
tree = ast.parse(src)
ns = {'datetime': datetime}
out = []
for cls in [n for n in tree.body if isinstance(n, ast.ClassDef)]:
    for fn in [n for n in cls.body if isinstance(n, ast.FunctionDef)]:
        item = {'test': fn.name}
        for node in ast.walk(fn):
            if isinstance(node, ast.Assign) and isinstance(node.targets[0], ast.Name):
                name = node.targets[0].id
                if name in ('frame_data', 'expectation'):
                    try:
                        item[name] = eval(compile(ast.Expression(node.value), '<fx>', 'eval'), ns)
                    except Exception as e:
                        item[name + '_error'] = repr(e)
            if isinstance(node, ast.Constant) and isinstance(node.value, str):
                v = node.value
                if v.split('.')[0] in ('Connection', 'Channel', 'Exchange', 'Queue', 'Basic', 'Tx', 'Confirm') and '.' in v and ' ' not in v:
                    item.setdefault('name', v)
        if 'frame_data' in item and isinstance(item['frame_data'], bytes):
            out.append(item)
fixtures = []
for it in out:
    data = it['frame_data']
    rec = {'test': it['test'], 'data': data.hex(), 'name': it.get('name')}
    if 'expectation' in it and isinstance(it['expectation'], dict):
        rec['expectation'] = canon.to_json(it['expectation'])
    try:
        n, ch, kind, detail = refcodec.dec_frame(data)
        rec['kind'] = kind
        if kind == 'method':
            rec['reencodes'] = refcodec.enc_method_frame(detail[0], detail[1], ch) == data
        elif kind == 'header':
            rec['reencodes'] = refcodec.enc_header_frame(detail[3], detail[2], ch) == data
    except Exception as e:
        rec['ref_error'] = repr(e)
    fixtures.append(rec)
# ---- table / array fixtures (tests/test_decoding.py) and marshaling fixtures
import decimal
ns2 = {'datetime': datetime, 'decimal': decimal}
tsrc = ast.parse(open('/repo/tests/test_decoding.py').read())
tables = {}
for cls in [n for n in tsrc.body if isinstance(n, ast.ClassDef)]:
    for node in cls.body:
        if isinstance(node, ast.Assign) and isinstance(node.targets[0], ast.Name) \
                and node.targets[0].id.startswith('FIELD_'):
            tables[node.targets[0].id] = eval(compile(ast.Expression(node.value), '<fx>', 'eval'), ns2)
values = []
for kind, b, v in (('array', 'FIELD_ARR', 'FIELD_ARR_VALUE'), ('table', 'FIELD_TBL', 'FIELD_TBL_VALUE')):
    values.append({'kind': kind, 'data': tables[b].hex(), 'value': canon.to_json(tables[v])})
msrc = ast.parse(open('/repo/tests/test_frame_marshaling.py').read())
marsh = []
for cls in [n for n in msrc.body if isinstance(n, ast.ClassDef)]:
    for fn in [n for n in cls.body if isinstance(n, ast.FunctionDef)]:
        for node in ast.walk(fn):
            if isinstance(node, ast.Assign) and isinstance(node.targets[0], ast.Name) \
                    and node.targets[0].id == 'expectation':
                try:
                    val = eval(compile(ast.Expression(node.value), '<fx>', 'eval'), ns2)
                except Exception:
                    continue
                if isinstance(val, bytes):
                    marsh.append({'test': fn.name, 'data': val.hex()})
print(len(values), 'value fixtures;', len(marsh), 'marshaling fixtures')
json.dump({'source': 'tests/test_frame_unmarshaling.py, tests/test_decoding.py, tests/test_frame_marshaling.py',
           'values': values, 'marshaled': marsh, 'fixtures': fixtures},
          open(os.path.join(VERIF, 'corpus', 'fixtures.json'), 'w'), indent=1)
print(len(fixtures), 'fixtures;', sum(1 for f in fixtures if f.get('reencodes')), 'reencode identically;',
      [f['test'] for f in fixtures if f.get('reencodes') is False], [(f['test'], f['ref_error']) for f in fixtures if 'ref_error' in f],
      [f['test'] for f in fixtures if 'expectation' not in f])
