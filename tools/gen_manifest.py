#!/venv/bin/python
"""Regenerate MANIFEST.json from the property modules that exist (keeps it valid)."""
import importlib
import json
import os
import sys

VERIF = os.path.dirname(os.path.dirname(os.path.abspath(__file__)))
sys.path.insert(0, VERIF)
sys.path.insert(0, os.environ.get('PAMQP_REPO', '/repo'))

ALL = ['C%02d' % i for i in range(1, 21)]
checks, missing = [], []
for pid in ALL:
    path = os.path.join(VERIF, 'pbt', 'props', pid.lower() + '.py')
    if not os.path.exists(path):
        missing.append(pid)
        continue
    mod = importlib.import_module('pbt.props.' + pid.lower())
    checks.append({
        'property_id': pid,
        'quick_cmd': './check %s --tier quick' % pid,
        'thorough_cmd': './check %s --tier thorough' % pid,
        'evidence_file': '/verif/evidence/%s.json' % pid,
        'replay_cmd_template': './check %s --replay {path}' % pid,
        'engine': 'pbt-runner',
        'level_claimed': {'category': mod.LEVEL, 'text': mod.LEVEL_TEXT,
                          'design_ref': mod.DESIGN_REF},
        'level_note': mod.LEVEL_NOTE,
        'technique': mod.TECHNIQUE,
    })
manifest = {
    'version': 1,
    'setup_cmd': './setup.sh',
    'hooks': {
        'guard': 'PAMQP_VERIF',
        'enable': 'no hooks: checks import pamqp from the /repo working tree '
                  '(PAMQP_REPO overrides the path) and observe it through the '
                  'public API, sys.settrace and process-level controls only',
        'baseline_off_cmd': 'cd /repo && /venv/bin/python -m pytest -q '
                            '-p no:cacheprovider',
        'source_commits': [],
        'add_only': True,
    },
    'engines': [
        {'name': 'pbt-runner', 'path': '/verif/pbt/runner.py',
         'serves_properties': [c['property_id'] for c in checks],
         'kind_free_text': 'Hypothesis strategies / op-sequence machines + '
                           'exhaustive sweeps of finite sub-domains, sharded over '
                           '16 processes, against explicit oracles (independent '
                           'reference codec, transcribed spec table, round trips, '
                           'metamorphic relations); collect-then-shrink with '
                           'root-cause buckets; tagged-JSON replay files'},
    ],
    'checks': checks,
    'not_applicable': [
        {'property_id': p, 'reason': 'check not built yet (work in progress); '
         'no evidence is claimed for it'} for p in missing],
    'notes': 'See DESIGN.md. Every check: ./check <ID> --tier quick|thorough; '
             'VERIF_SEED selects the Hypothesis seeds; exit 2 = harness error / '
             'inconclusive (never a VIOLATION).',
}
with open(os.path.join(VERIF, 'MANIFEST.json'), 'w') as f:
    json.dump(manifest, f, indent=1)
    f.write('\n')
print('checks:', [c['property_id'] for c in checks], 'missing:', missing)
