#!/opt/veriftools/pyvenv/bin/python
"""Validate MANIFEST.json and every evidence file against the schemas (python3-vt has jsonschema)."""
import glob, json, sys
import jsonschema
ok = True
m = json.load(open('/verif/MANIFEST.json'))
jsonschema.validate(m, json.load(open('/root/.vp/MANIFEST.schema.json')))
es = json.load(open('/root/.vp/EVIDENCE.schema.json'))
for c in m['checks']:
    try:
        e = json.load(open(c['evidence_file']))
        jsonschema.validate(e, es)
        assert e['level'] == c['level_claimed']['category'], 'level mismatch'
        print('ok ', c['property_id'], e['tier'], e['coverage']['evaluations'], e['coverage']['distinct_nontrivial'], 'viol=%s' % e.get('violations'))
    except Exception as ex:
        ok = False
        print('BAD', c['property_id'], str(ex)[:200])
ids = [c['property_id'] for c in m['checks']] + [n['property_id'] for n in m.get('not_applicable', [])]
assert sorted(ids) == ['C%02d' % i for i in range(1, 21)], ids
sys.exit(0 if ok else 1)
