#!/venv/bin/python
"""Cross-check matrix: run every check (quick tier) against every confirmed seeded change.

Each change is applied to a scratch copy of /repo's pamqp package outside /repo and /verif
(removed afterwards) and selected through PAMQP_REPO.  Writes seeded/matrix.json.
usage: tools/matrix.py [--names a,b] [--checks C01,C02]"""
import argparse, json, os, shutil, subprocess, time
VERIF = os.path.dirname(os.path.dirname(os.path.abspath(__file__)))
SCRATCH = '/tmp/verif-matrix'
ap = argparse.ArgumentParser(); ap.add_argument('--names'); ap.add_argument('--checks')
a = ap.parse_args()
names = sorted(d for d in os.listdir(os.path.join(VERIF, 'seeded'))
               if os.path.isdir(os.path.join(VERIF, 'seeded', d)))
if a.names:
    names = [n for n in names if n in a.names.split(',')]
checks = a.checks.split(',') if a.checks else ['C%02d' % i for i in range(1, 21)]
out_path = os.path.join(VERIF, 'seeded', 'matrix.json')
matrix = json.load(open(out_path)) if os.path.exists(out_path) else {}
for n in names:
    root = os.path.join(SCRATCH, n)
    shutil.rmtree(root, ignore_errors=True); os.makedirs(root)
    shutil.copytree('/repo/pamqp', os.path.join(root, 'pamqp'))
    p = subprocess.run(['patch', '-p1', '-s', '-i', os.path.join(VERIF, 'seeded', n, 'patch.diff')],
                       cwd=root, capture_output=True, text=True)
    if p.returncode:
        print('patch failed', n, p.stdout, p.stderr); continue
    row = matrix.setdefault(n, {})
    for c in checks:
        t = time.time()
        r = subprocess.run([os.path.join(VERIF, 'check'), c, '--tier', 'quick', '--no-evidence'],
                           cwd=VERIF, env=dict(os.environ, PAMQP_REPO=root, VERIF_TASK_TIMEOUT='600'),
                           capture_output=True, text=True)
        row[c] = r.returncode
        for f in os.listdir(os.path.join(VERIF, 'replays')):
            if f.endswith('.json'):
                os.unlink(os.path.join(VERIF, 'replays', f))
        print(n, c, r.returncode, '%.0fs' % (time.time() - t), flush=True)
        json.dump(matrix, open(out_path, 'w'), indent=1, sort_keys=True)
    shutil.rmtree(root, ignore_errors=True)
shutil.rmtree(SCRATCH, ignore_errors=True)
