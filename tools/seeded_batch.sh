#!/bin/sh
# usage: tools/seeded_batch.sh <dir with worktrees> <suffix> [names...]
DIR=$1; SUF=$2; shift 2
for k in "$@"; do
  p=$(echo $k | cut -c1-3)
  [ -f $DIR/$k/_seed/patch.diff ] || { echo "$k: no patch"; continue; }
  /venv/bin/python /verif/tools/seeded.py $DIR/$k $k-$SUF $p 2>&1 | /venv/bin/python -c "
import sys,json
try:
    m=json.load(sys.stdin)
    print(m['name'],'confirmed=%s'%m['confirmed'],m['tests_with_change'][:22],m['demo_with_change_exit'],m['demo_without_change_exit'],'CAUGHT' if m['caught_by'] else 'MISSED',{k:(v['exit'],v['seconds'],v['buckets'][:3]) for k,v in m['checks'].items()})
except Exception as e:
    print('$k: error', e)
"
done
