#!/venv/bin/python
"""Confirm a sub-agent's seeded change and record it under /verif/seeded/<name>/.

usage: tools/seeded.py <worktree> <name> <property> [--checks C03,C04,...] [--skip-confirm]
Steps: (1) the worktree's diff is the saved patch; (2) the repository tests pass with the
change; (3) the demonstration fails with the change and passes without it; (4) the named
checks (default: the owning property) are run against the changed tree through PAMQP_REPO;
(5) patch.diff, demo, README and meta.json are stored.
"""
import argparse, json, os, shutil, subprocess, sys, time
VERIF = os.path.dirname(os.path.dirname(os.path.abspath(__file__)))


def sh(cmd, cwd, env=None, timeout=3600):
    p = subprocess.run(cmd, cwd=cwd, env=env, shell=isinstance(cmd, str),
                       capture_output=True, text=True, timeout=timeout)
    return p.returncode, p.stdout + p.stderr


def main():
    ap = argparse.ArgumentParser()
    ap.add_argument('worktree'); ap.add_argument('name'); ap.add_argument('prop')
    ap.add_argument('--checks'); ap.add_argument('--needs', default='')
    a = ap.parse_args()
    wt = a.worktree
    seed = os.path.join(wt, '_seed')
    meta = {'name': a.name, 'breaks_property': a.prop, 'ran': []}
    rc, diff = sh('git diff -- pamqp', wt)
    saved = open(os.path.join(seed, 'patch.diff')).read()
    meta['patch_matches_worktree'] = diff.strip() == saved.strip()
    rc, out = sh('/venv/bin/python -m pytest -q -p no:cacheprovider', wt)
    meta['tests_with_change'] = out.strip().splitlines()[-1]
    meta['ran'].append('cd <worktree> && /venv/bin/python -m pytest -q -p no:cacheprovider')
    tests_ok = rc == 0
    rc1, out1 = sh('/venv/bin/python _seed/demo.py', wt)
    sh('git apply -R _seed/patch.diff', wt)
    rc0, out0 = sh('/venv/bin/python _seed/demo.py', wt)
    rcb, outb = sh('/venv/bin/python -m pytest -q -p no:cacheprovider', wt)
    sh('git apply _seed/patch.diff', wt)
    meta['demo_with_change_exit'] = rc1
    meta['demo_without_change_exit'] = rc0
    meta['demo_failure'] = out1.strip().splitlines()[-1][:400] if out1.strip() else ''
    meta['ran'] += ['cd <worktree> && /venv/bin/python _seed/demo.py  (with change)',
                    'git apply -R _seed/patch.diff; demo again; git apply _seed/patch.diff']
    confirmed = tests_ok and rc1 != 0 and rc0 == 0 and meta['patch_matches_worktree']
    meta['confirmed'] = confirmed
    checks = (a.checks or a.prop).split(',')
    meta['checks'] = {}
    for c in checks:
        env = dict(os.environ, PAMQP_REPO=wt, VERIF_TASK_TIMEOUT='900')
        t = time.time()
        rc, out = sh([os.path.join(VERIF, 'check'), c, '--tier', 'quick', '--no-evidence'],
                     VERIF, env, 3600)
        buckets = sorted({l.split('bucket=')[1].split()[0] for l in out.splitlines()
                          if 'bucket=' in l})
        first = [l.strip() for l in out.splitlines() if l.startswith('  ') and 'component=' not in l][:2]
        meta['checks'][c] = {'exit': rc, 'seconds': round(time.time() - t, 1),
                             'buckets': buckets[:8], 'message': first}
        meta['ran'].append('PAMQP_REPO=<worktree> ./check %s --tier quick --no-evidence' % c)
        for f in os.listdir(os.path.join(VERIF, 'replays')):
            if f.endswith('.json'):
                os.unlink(os.path.join(VERIF, 'replays', f))
    meta['caught_by'] = [c for c, r in meta['checks'].items() if r['exit'] == 1]
    meta['needs_to_manifest'] = a.needs
    print(json.dumps(meta, indent=1))
    if confirmed:
        dst = os.path.join(VERIF, 'seeded', a.name)
        os.makedirs(dst, exist_ok=True)
        for f in ('patch.diff', 'demo.py', 'README.md'):
            if os.path.exists(os.path.join(seed, f)):
                shutil.copy(os.path.join(seed, f), dst)
        json.dump(meta, open(os.path.join(dst, 'meta.json'), 'w'), indent=1)
    else:
        print('NOT CONFIRMED')


if __name__ == '__main__':
    main()
