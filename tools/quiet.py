#!/venv/bin/python
"""Quietness / determinism: run every check at several VERIF_SEED values on the unchanged tree;
every run must exit 0 without a VIOLATION line.  usage: tools/quiet.py [tier] [seeds...]"""
import json, os, subprocess, sys, time
VERIF = os.path.dirname(os.path.dirname(os.path.abspath(__file__)))
tier = sys.argv[1] if len(sys.argv) > 1 else 'quick'
seeds = [int(x) for x in sys.argv[2:]] or [1, 2, 3, 7, 12345]
bad = 0
for seed in seeds:
    for i in range(1, 21):
        pid = 'C%02d' % i
        if os.environ.get('QUIET_CHECKS') and pid not in os.environ['QUIET_CHECKS'].split(','):
            continue
        t = time.time()
        p = subprocess.run([os.path.join(VERIF, 'check'), pid, '--tier', tier, '--no-evidence'],
                           cwd=VERIF, env=dict(os.environ, VERIF_SEED=str(seed)),
                           capture_output=True, text=True)
        last = (p.stdout.strip().splitlines() or ['?'])[-1]
        flag = 'OK ' if p.returncode == 0 and 'VIOLATION' not in p.stdout else 'BAD'
        if flag == 'BAD':
            bad += 1
            print(p.stdout[-3000:], p.stderr[-3000:])
        print(flag, 'seed=%d' % seed, pid, 'exit=%d' % p.returncode, '%.0fs' % (time.time() - t), last, flush=True)
print('bad runs:', bad)
sys.exit(1 if bad else 0)
